"""Drive the REAL gherkin.parser.Parser with a kind-level stub scanner/matcher.

The stub matcher implements the matcher contract MC1-MC6 of DESIGN §4 and nothing else: what
`match_X` answers is a function of the line's abstract kind (a small int, symbolic under
CrossHair) and of the doc-string delimiter state.  The parser, its look-ahead loops, queue,
error handling *and the real AstBuilder* run unchanged; a recording subclass of AstBuilder
notes every start_rule/end_rule/build call before delegating.
"""
from gherkin.ast_builder import AstBuilder
from gherkin.errors import ParserException, NoSuchLanguageException
from gherkin.gherkin_line import GherkinLine
from gherkin.token import Token

# abstract line kinds
(EMPTY, COMMENT, TAG, TAGBAD, FEATURE, RULE, BACKGROUND, SCENARIO, EXAMPLES, STEP, DOCA, DOCB,
 ROW1, ROW2, LANGUAGE, LANGBAD, OTHER) = range(17)
NK = 17
NAMES = ["Empty", "Comment", "TagLine", "TagLine!", "FeatureLine", "RuleLine", "BackgroundLine",
         "ScenarioLine", "ExamplesLine", "StepLine", 'DocSep"""', "DocSep```", "TableRow/1", "TableRow/2",
         "Language", "Language!", "Other"]
# a concrete line text per kind (only used for messages / token_value; the stub matcher never looks at it)
TEXT = ["", "# c", "@t", "@a b", "Feature: f", "Rule: r", "Background:", "Scenario: s", "Examples:",
        "Given x", '"""', "```", "| a |", "| a | b |", "# language: en", "# language: zz", "text"]


class KTok(Token):
    def __init__(self, kind, line_no):
        line = GherkinLine(TEXT[kind] if kind is not None else "", line_no) if kind is not None else None
        super().__init__(line, {"line": line_no})
        self.kind = kind
        self.n_match_calls = 0
        self.matched_type = None
        self.matched_items = []
        self.matched_text = None
        self.matched_keyword = None
        self.matched_keyword_type = None
        self.matched_indent = 0
        self.matched_gherkin_dialect = "en"

    def eof(self):
        return self.kind is None


class KScanner:
    """one token per abstract line, numbered from 1, then EOF tokens forever (contract MC7)"""

    def __init__(self, kinds):
        self.kinds = list(kinds)
        self.i = 0
        self.handed = []

    def read(self):
        self.i += 1
        k = self.kinds[self.i - 1] if self.i <= len(self.kinds) else None
        t = KTok(k, self.i)
        self.handed.append(t)
        return t


class KMatcher:
    def __init__(self):
        self.active = None
        self.calls = 0
        self.resets = 0

    def reset(self):
        self.active = None
        self.resets += 1

    def _set(self, token, mtype, text=None, keyword=None, ktype=None, items=None):
        token.matched_type = mtype
        token.matched_text = text
        token.matched_keyword = keyword
        token.matched_keyword_type = ktype
        token.matched_items = items or []
        token.matched_indent = 0
        token.location["column"] = 1
        token.matched_gherkin_dialect = "en"

    def _count(self, token):
        self.calls += 1
        token.n_match_calls += 1

    def match_EOF(self, token):
        self._count(token)
        if token.kind is not None:
            return False
        self._set(token, "EOF")
        return True

    def match_Empty(self, token):
        self._count(token)
        if token.kind != EMPTY:
            return False
        self._set(token, "Empty")
        return True

    def match_Comment(self, token):
        self._count(token)
        if not (token.kind == COMMENT or token.kind == LANGUAGE or token.kind == LANGBAD):
            return False
        self._set(token, "Comment", TEXT[token.kind])
        return True

    def match_TagLine(self, token):
        self._count(token)
        if token.kind == TAGBAD:
            raise ParserException("A tag may not contain whitespace", {"line": token.location["line"], "column": 1})
        if token.kind != TAG:
            return False
        self._set(token, "TagLine", items=[{"column": 1, "text": "@t"}])
        return True

    def _title(self, token, kind, mtype, kw):
        self._count(token)
        if token.kind != kind:
            return False
        self._set(token, mtype, "n", kw)
        return True

    def match_FeatureLine(self, token):
        return self._title(token, FEATURE, "FeatureLine", "Feature")

    def match_RuleLine(self, token):
        return self._title(token, RULE, "RuleLine", "Rule")

    def match_BackgroundLine(self, token):
        return self._title(token, BACKGROUND, "BackgroundLine", "Background")

    def match_ScenarioLine(self, token):
        return self._title(token, SCENARIO, "ScenarioLine", "Scenario")

    def match_ExamplesLine(self, token):
        return self._title(token, EXAMPLES, "ExamplesLine", "Examples")

    def match_StepLine(self, token):
        self._count(token)
        if token.kind != STEP:
            return False
        self._set(token, "StepLine", "x", "Given ", "Context")
        return True

    def match_DocStringSeparator(self, token):
        self._count(token)
        if token.kind == DOCA:
            sep = '"""'
        elif token.kind == DOCB:
            sep = "```"
        else:
            return False
        if self.active is None:
            self.active = sep
            self._set(token, "DocStringSeparator", "", sep)
            return True
        if self.active == sep:
            self.active = None
            self._set(token, "DocStringSeparator", None, sep)
            return True
        return False

    def match_TableRow(self, token):
        self._count(token)
        if token.kind == ROW1:
            n = 1
        elif token.kind == ROW2:
            n = 2
        else:
            return False
        self._set(token, "TableRow", items=[{"column": 2 + 4 * j, "text": "a"} for j in range(n)])
        return True

    def match_Language(self, token):
        self._count(token)
        if token.kind == LANGBAD:
            self._set(token, "Language", "zz")
            raise NoSuchLanguageException("zz", token.location)
        if token.kind != LANGUAGE:
            return False
        self._set(token, "Language", "en")
        return True

    def match_Other(self, token):
        self._count(token)
        self._set(token, "Other", TEXT[token.kind])
        return True


class RecBuilder(AstBuilder):
    """the real AstBuilder, recording what the parser reports to it"""

    def __init__(self):
        super().__init__()
        self.events = []
        self.n_reset = 0

    def reset(self):
        super().reset()
        self.events = []
        self.n_reset = getattr(self, "n_reset", 0) + 1

    def start_rule(self, rule_type):
        self.events.append(("start", rule_type))
        super().start_rule(rule_type)

    def end_rule(self, rule_type):
        self.events.append(("end", rule_type))
        super().end_rule(rule_type)

    def build(self, token):
        self.events.append(("build", token.location["line"], token.matched_type))
        super().build(token)
