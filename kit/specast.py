"""Reference AST construction at line-kind level: from the event tape of the specification-level parser (kit.specparse) and the
canned token values of the stub matcher (kit.pdrive) build the gherkinDocument the statements of C03/C04/C11 prescribe - nesting by
the grammar rules, canonical ids.  Independent of gherkin/ast_builder.py (which it is compared with)."""
from .pdrive import TEXT, ROW1


class Node:
    def __init__(self, rule):
        self.rule = rule
        self.items = []     # ("tok", line, type) | ("node", Node)


def build(events, kinds, start_id=0):
    """-> expected gherkinDocument (without uri) for an ACCEPTED kind sequence"""
    counter = [start_id]

    def nid():
        counter[0] += 1
        return str(counter[0] - 1)

    comments = []
    root = Node("GherkinDocument")
    stack = [root]
    for e in events:
        if e[0] == "start":
            if e[1] == "GherkinDocument":
                continue
            n = Node(e[1])
            stack[-1].items.append(("node", n))
            stack.append(n)
        elif e[0] == "end":
            if e[1] == "GherkinDocument":
                continue
            stack.pop()
        else:
            if e[2] == "Comment":
                comments.append({"location": {"line": e[1], "column": 1}, "text": TEXT[kinds[e[1] - 1]]})
            else:
                stack[-1].items.append(("tok", e[1], e[2]))

    def loc(line):
        return {"line": line, "column": 1}

    def toks(n, t):
        return [x[1] for x in n.items if x[0] == "tok" and x[2] == t]

    def subs(n, r):
        return [x[1] for x in n.items if x[0] == "node" and x[1].rule == r]

    def description(n):
        ds = subs(n, "Description")
        if not ds:
            return ""
        lines = [TEXT[kinds[l - 1]] for l in toks(ds[0], "Other")]
        while lines and lines[-1].strip() == "":
            lines.pop()
        return "\n".join(lines)

    def rows(n):
        out = []
        for l in toks(n, "TableRow"):
            ncell = 1 if kinds[l - 1] == ROW1 else 2
            out.append({"id": nid(), "location": loc(l), "cells": [{"location": {"line": l, "column": 2 + 4 * j}, "value": "a"} for j in range(ncell)]})
        return out

    def tags(n):
        out = []
        for tn in subs(n, "Tags"):
            for l in toks(tn, "TagLine"):
                out.append({"id": nid(), "location": loc(l), "name": "@t"})
        return out

    def step(n):
        l = toks(n, "StepLine")[0]
        st = {"id": None, "location": loc(l), "keyword": "Given ", "keywordType": "Context", "text": "x"}
        dts = subs(n, "DataTable")
        dss = subs(n, "DocString")
        if dts:
            r = rows(dts[0])
            st["dataTable"] = {"location": r[0]["location"], "rows": r}
        elif dss:
            seps = toks(dss[0], "DocStringSeparator")
            content = "\n".join(TEXT[kinds[l2 - 1]] for l2 in toks(dss[0], "Other"))
            st["docString"] = {"location": loc(seps[0]), "content": content, "delimiter": TEXT[kinds[seps[0] - 1]]}
        st["id"] = nid()
        return st

    def background(n):
        l = toks(n, "BackgroundLine")[0]
        steps = [step(s) for s in subs(n, "Step")]
        return {"background": {"id": nid(), "location": loc(l), "keyword": "Background", "name": "n", "description": description(n), "steps": steps}}

    def examples_def(n):
        ex = subs(n, "Examples")[0]
        l = toks(ex, "ExamplesLine")[0]
        tbl = subs(ex, "ExamplesTable")
        r = rows(tbl[0]) if tbl else []
        tg = tags(n)
        out = {"id": nid(), "tags": tg, "location": loc(l), "keyword": "Examples", "name": "n", "description": description(ex)}
        if r:
            out["tableHeader"] = r[0]
        out["tableBody"] = r[1:]
        return out

    def scenario_def(n):
        sc = subs(n, "Scenario")[0]
        l = toks(sc, "ScenarioLine")[0]
        steps = [step(s) for s in subs(sc, "Step")]
        exs = [examples_def(x) for x in subs(sc, "ExamplesDefinition")]
        tg = tags(n)
        return {"scenario": {"id": nid(), "tags": tg, "location": loc(l), "keyword": "Scenario", "name": "n", "description": description(sc),
                             "steps": steps, "examples": exs}}

    def rule(n):
        hdr = subs(n, "RuleHeader")[0]
        l = toks(hdr, "RuleLine")[0]
        children = [background(b) for b in subs(n, "Background")][:1] + [scenario_def(s) for s in subs(n, "ScenarioDefinition")]
        tg = tags(hdr)
        return {"rule": {"id": nid(), "tags": tg, "location": loc(l), "keyword": "Rule", "name": "n", "description": description(hdr), "children": children}}

    doc = {"comments": comments}
    feats = subs(root, "Feature")
    if feats:
        f = feats[0]
        hdr = subs(f, "FeatureHeader")[0]
        fl = toks(hdr, "FeatureLine")
        if fl:
            children = [background(b) for b in subs(f, "Background")][:1] + [scenario_def(s) for s in subs(f, "ScenarioDefinition")] + [rule(r) for r in subs(f, "Rule")]
            tg = tags(hdr)
            doc = {"feature": {"tags": tg, "location": loc(fl[0]), "language": "en", "keyword": "Feature", "name": "n", "description": description(hdr),
                               "children": children}, "comments": comments}
    return doc, counter[0]
