"""CrossHair worker: analyse ONE harness function (one condition) and print a JSON verdict.

Run as:  VERIF_SYMBOLIC=1 VERIF_PARAMS='{}' python3-vt -m kit.xworker <module> <function> <T> <P>
This is `crosshair check --report_all --per_condition_timeout T --per_path_timeout P` driven
through CrossHair's own API (analyze_function / run_checkables) so that the verdict, the
number of explored paths and the counterexample call are obtained as data, not by scraping.
"""
import collections
import importlib
import json
import os
import sys
import time
import traceback


def main():
    mod_name, fn_name, T, P = sys.argv[1], sys.argv[2], float(sys.argv[3]), float(sys.argv[4])
    os.environ["VERIF_SYMBOLIC"] = "1"
    sys.setrecursionlimit(20000)
    out = {"module": mod_name, "function": fn_name, "params": os.environ.get("VERIF_PARAMS", "{}")}
    t0 = time.time()
    try:
        import crosshair.core_and_libs  # noqa: F401  (registers library models)
        from crosshair.core import analyze_function, run_checkables, MessageType
        from crosshair.options import AnalysisOptionSet

        mod = importlib.import_module(mod_name)
        fn = getattr(mod, fn_name)
        stats = collections.Counter()
        opts = AnalysisOptionSet(
            per_condition_timeout=T,
            per_path_timeout=P,
            report_all=True,
            stats=stats,
            max_uninteresting_iterations=sys.maxsize,
        )
        checkables = analyze_function(fn, opts)
        if not checkables:
            out.update(state="HARNESS_ERROR", message="no checkable conditions")
        else:
            msgs = run_checkables(checkables)
            # worst message decides
            worst = max(msgs, key=lambda m: m.state.value if hasattr(m.state, "value") else 0) if msgs else None
            if worst is None:
                out.update(state="HARNESS_ERROR", message="no messages")
            else:
                out.update(
                    state=worst.state.name,
                    message=worst.message,
                    line=worst.line,
                    tb=(worst.traceback or "")[-1500:],
                )
            out["all_states"] = [m.state.name for m in msgs]
        out["paths"] = stats.get("num_paths", 0)
        from . import sym

        out["reached"] = sorted(getattr(sym, "REACHED", ()))
        try:
            from . import rx

            out["rx_patterns"] = sorted([p, f] for p, f in rx.SEEN_PATTERNS.items())
        except Exception:
            out["rx_patterns"] = []
    except BaseException as e:  # noqa
        out.update(state="HARNESS_ERROR", message="%s: %s" % (type(e).__name__, e), tb=traceback.format_exc()[-3000:])
    out["cpu_s"] = time.process_time()
    out["wall_s"] = time.time() - t0
    sys.stdout.write("\nXWORKER-RESULT " + json.dumps(out) + "\n")


if __name__ == "__main__":
    main()
