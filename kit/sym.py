"""Set-up shared by every harness module.

`import kit.sym` must be the first import of a harness.  With VERIF_SYMBOLIC=1 (set by the
CrossHair worker) it patches CrossHair's string equality (kit.chpatch) and binds kit.rx in
place of `re` in the repository modules; without it (replay under /venv/bin/python) nothing
is touched and the harness runs against the unmodified modules and the real `re`.
"""
import os
import sys

SYMBOLIC = os.environ.get("VERIF_SYMBOLIC") == "1"
REPO = os.environ.get("VERIF_REPO", "/repo")
if REPO + "/python" not in sys.path:
    sys.path.insert(0, REPO + "/python")

import json as _json

PARAMS = _json.loads(os.environ.get("VERIF_PARAMS", "{}"))


def param(name, default=None):
    return PARAMS.get(name, default)


RX_BOUND = []

if SYMBOLIC:
    from . import chpatch  # noqa: F401
    from . import rx

    import gherkin.gherkin_line as _gl
    import gherkin.token_matcher as _tm
    import gherkin.token_matcher_markdown as _tmm
    import gherkin.pickles.compiler as _pc

    for _mod in (_gl, _tm, _tmm, _pc):
        if getattr(_mod, "re", None) is not None:
            _mod.re = rx
            RX_BOUND.append(_mod.__name__)
    # recompile module-level and class-level compiled patterns of these modules from their own source text
    import re as _real_re

    def _rebind_patterns(ns, setter):
        for _k, _v in list(ns.items()):
            if isinstance(_v, _real_re.Pattern):
                setter(_k, rx.compile(_v.pattern, _v.flags & ~_real_re.UNICODE))

    for _mod in (_gl, _tm, _tmm, _pc):
        _rebind_patterns(vars(_mod), lambda k, v, m=_mod: setattr(m, k, v))
        for _cv in list(vars(_mod).values()):
            if isinstance(_cv, type) and _cv.__module__ == _mod.__name__:
                _rebind_patterns(dict(vars(_cv)), lambda k, v, c=_cv: setattr(c, k, v))


def pick(i, options):
    """Choose options[i] by an explicit comparison chain: each choice is one solver-decided
    fork and the chosen value is concrete on that path (never a symbolic dict key/pattern)."""
    n = len(options)
    for j in range(n - 1):
        if i == j:
            return options[j]
    return options[n - 1]


def in_range(i, n):
    return 0 <= i < n


REACHED = set()


def reach(tag):
    """Reachability witness: records (concretely, in the worker process) that some explored,
    solver-feasible path got here.  The runner demands every tag a condition declares."""
    REACHED.add(tag)
    return True


import contextlib


def untraced():
    """context manager: run a block outside CrossHair's tracer (only for code that touches concrete data:
    oracles / structural comparison on values that are concrete on the current path)"""
    if SYMBOLIC:
        from crosshair.tracers import NoTracing
        return NoTracing()
    return contextlib.nullcontext()


def is_concrete_str(s):
    if not SYMBOLIC:
        return True
    from crosshair.tracers import NoTracing
    with NoTracing():
        return type(s) is str


class scanner_env:
    """Environment of gherkin.token_scanner for one harness call.  `os.path.exists` always answers `exists` (so that a
    counterexample text is never looked up on the real disk); under CrossHair `io` is additionally replaced by the
    pure-Python contract model kit.pyio (the real io.StringIO is a C object), in replay mode the real io is used."""

    def __init__(self, exists=False):
        self.exists = exists

    def __enter__(self):
        import gherkin.token_scanner as ts
        from . import pyio
        self.ts = ts
        self.saved = {k: getattr(ts, k) for k in ("io", "os") if hasattr(ts, k)}
        if "os" in self.saved:
            ts.os = pyio.OS(self.exists)
        if SYMBOLIC and "io" in self.saved:
            ts.io = pyio.hybrid_io()
        return self

    def __exit__(self, *a):
        for k, v in self.saved.items():
            setattr(self.ts, k, v)
        return False
