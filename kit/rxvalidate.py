"""Differential validation of kit.rx against the real `re` (run on every check run).

For every pattern string it is given, compares search/match spans+groups, sub, split and
finditer spans on all strings of length <= maxlen over an alphabet taken from the pattern's
own literals plus a fixed set of class representatives.  Returns (comparisons, disagreements).
"""
import itertools
import re

from . import rx

BASE = [" ", "\t", "\n", "a", "\\", " ", "　"]


def alphabet(pattern, extra=""):
    lits = []
    for ch in pattern + extra:
        if ch not in lits and ch not in BASE:
            lits.append(ch)
    # keep the alphabet small: pattern metachar literals matter most
    pri = [c for c in lits if not c.isalnum()] + [c for c in lits if c.isalnum()]
    return BASE + pri[:7]


def _spans(m, ngroups):
    if m is None:
        return None
    return tuple(m.span(g) for g in range(ngroups + 1)) + tuple(m.group(g) for g in range(ngroups + 1))


def validate(patterns, maxlen=3, repls=("", "X", r"\\\\", r"[\1]"), log=None):
    n = 0
    bad = []
    for pat, flags in patterns:
        rp = re.compile(pat, flags)
        xp = rx.compile(pat, flags)
        alpha = alphabet(pat)
        use_repls = [r for r in repls if not (r == r"[\1]" and rp.groups < 1)]
        for L in range(maxlen + 1):
            for tup in itertools.product(alpha, repeat=L):
                s = "".join(tup)
                n += 1
                a = _spans(rp.search(s), rp.groups)
                b = _spans(xp.search(s), rp.groups)
                if a != b:
                    bad.append(("search", pat, s, a, b))
                a = _spans(rp.match(s), rp.groups)
                b = _spans(xp.match(s), rp.groups)
                if a != b:
                    bad.append(("match", pat, s, a, b))
                a = [m.span() for m in rp.finditer(s)]
                b = [m.span() for m in xp.finditer(s)]
                if a != b:
                    bad.append(("finditer", pat, s, a, b))
                for ms in (0, 2):
                    a = rp.split(s, maxsplit=ms)
                    b = xp.split(s, maxsplit=ms)
                    if a != b:
                        bad.append(("split", pat, s, a, b))
                for r in use_repls:
                    a = rp.sub(r, s)
                    b = xp.sub(r, s)
                    if a != b:
                        bad.append(("sub", pat, s, r, a, b))
                if len(bad) > 20:
                    return n, bad
    return n, bad


def validate_templates(maxlen=3):
    """replacement-template parsing: compare rx with re on all templates over a small alphabet."""
    alpha = ["\\", "1", "n", "g", "<", ">", "q", "$", "0"]
    n = 0
    bad = []
    for L in range(maxlen + 1):
        for tup in itertools.product(alpha, repeat=L):
            t = "".join(tup)
            n += 1
            for pat in ("(a)b", "ab"):
                try:
                    a = re.sub(pat, t, "xaby")
                except re.error:
                    a = "ERR"
                except Exception as e:  # IndexError etc.
                    a = "ERR"
                try:
                    b = rx.sub(pat, t, "xaby")
                except re.error:
                    b = "ERR"
                except Exception as e:
                    b = "ERR"
                if a != b:
                    bad.append(("template", pat, t, a, b))
    return n, bad
