"""vcheck: run the checks of one property and write /verif/evidence/<id>.json.

  ./vcheck C12 [--tier quick|thorough]
  ./vcheck --replay replays/C12-abcdef.json

exit 0: held on everything explored (known findings printed as KNOWN-FINDING lines)
exit 1: a violation reproduced on the real code; line "VIOLATION property=<id> replay=<path>"
exit 2: harness error (self-test failed, spurious counterexample, vacuous condition, untranslatable source)
"""
import importlib
import json
import os
import sys
import time

from . import runner
from .runner import Cond

if runner.REPO + "/python" not in sys.path:
    sys.path.insert(0, runner.REPO + "/python")

VERIF = runner.VERIF

SELFTEST = [
    ("t_strip_slice", "confirm"), ("f_strip_slice", "cex"),
    ("t_eq_sliced_concat", "confirm"), ("f_rstrip", "cex"),
    ("t_split_join", "confirm"), ("f_split_count", "cex"),
    ("t_rx_sub", "confirm"), ("f_rx_sub", "cex"),
]


def selftest_conditions():
    return [Cond("harness.selftest", f, T=60, P=20, expect=e, group="selftest") for f, e in SELFTEST]


def do_replay(path):
    blob = json.load(open(path))
    r = runner.replay(blob["module"], blob["call"], blob.get("params", {}))
    print(json.dumps(r, indent=1))
    if r.get("outcome") == "violated":
        print("VIOLATION property=%s replay=%s" % (blob["property"], path))
        return 1
    return 0


def main(argv=None):
    argv = list(sys.argv[1:] if argv is None else argv)
    if argv and argv[0] == "--replay":
        return do_replay(argv[1])
    pid = argv[0]
    tier = os.environ.get("VERIF_TIER", "quick")
    if "--tier" in argv:
        tier = argv[argv.index("--tier") + 1]
    seed = int(os.environ.get("VERIF_SEED", "0") or 0)
    t0 = time.time()
    mod = importlib.import_module("checks." + pid.lower())
    findings = runner.load_known_findings()

    harness_errors = []
    violations = []
    known = []
    notes = []

    # ---- Engine P (z3 over the translated automaton) and other direct-solver parts
    p_res = None
    if hasattr(mod, "solver_part"):
        try:
            p_res = mod.solver_part(tier)
        except runner_errors() as e:  # pragma: no cover
            harness_errors.append("solver part: %s: %s" % (type(e).__name__, e))
            p_res = None
        if p_res:
            for v in p_res.get("violations", []):
                violations.append(v)
            for h in p_res.get("harness_errors", []):
                harness_errors.append(h)

    # ---- Engine X (CrossHair conditions)
    conds = list(mod.conditions(tier)) if hasattr(mod, "conditions") else []
    st = selftest_conditions() if conds else []
    results = runner.run_conditions(st + conds) if (st or conds) else []
    st_res, x_res = results[: len(st)], results[len(st):]
    for c, v in zip(st, st_res):
        want = "confirmed" if c.expect == "confirm" else "counterexample"
        if v["verdict"] != want:
            harness_errors.append("engine self-test %s: expected %s, got %s (%s)" % (c.function, want, v["verdict"], v.get("detail") or v.get("message")))

    n_conf = n_cex_expected = n_notex = 0
    paths = 0
    cpu = 0.0
    not_exhausted = []
    patterns = {}
    for c, v in zip(conds, x_res):
        paths += v["paths"] or 0
        cpu += v["cpu_s"] or 0.0
        for p, f in v.get("rx_patterns", []):
            patterns[p] = f
        if c.expect == "cex":
            # reachability / falsity twin: must be refuted with a reproducing counterexample
            if v["verdict"] == "counterexample":
                n_cex_expected += 1
            else:
                harness_errors.append("twin %s was not refuted: %s %s" % (c.label, v["verdict"], v.get("detail") or ""))
            continue
        if v["verdict"] == "confirmed":
            n_conf += 1
        elif v["verdict"] == "not_exhausted":
            n_notex += 1
            not_exhausted.append({"condition": c.label, "paths_without_counterexample": v["paths"]})
        elif v["verdict"] == "counterexample":
            kf = runner.match_known(pid, v, findings)
            if kf:
                known.append((kf, v))
            else:
                path = runner.write_replay_file(pid, v)
                violations.append({"replay": path, "what": "%s: %s -> %s" % (c.label, v.get("call"), json.dumps(v.get("replay"))[:400])})
        else:
            harness_errors.append("%s: %s %s" % (c.label, v["verdict"], v.get("detail") or ""))

    # ---- open known findings: print the line only while the recorded witness still fails
    for f in findings:
        if f.get("property") != pid or f.get("status") != "open":
            continue
        w = f.get("witness")
        if not w:
            continue
        r = runner.replay(w["module"], w["call"], w.get("params", {}))
        if r.get("outcome") == "violated":
            print("KNOWN-FINDING: property=%s %s [%s]" % (pid, f["text"], f["id"]))
        else:
            notes.append("known finding %s no longer reproduces (witness holds)" % f["id"])
    seen_kf = set()
    for kf, v in known:
        if kf["id"] not in seen_kf and not kf.get("witness"):
            print("KNOWN-FINDING: property=%s %s [%s]" % (pid, kf["text"], kf["id"]))
        seen_kf.add(kf["id"])

    # ---- regex shim validation on the patterns that actually reached it in this run
    rxv = None
    if patterns:
        from . import rxvalidate
        maxlen = 3 if tier == "quick" else 4
        pats = [(p, f) for p, f in sorted(patterns.items()) if len(p) <= 400]
        n_cmp, bad = rxvalidate.validate(pats, maxlen=maxlen if len(pats) < 12 else 3)
        n_t, bad_t = rxvalidate.validate_templates(3)
        rxv = {"patterns": len(pats), "comparisons": n_cmp + n_t, "disagreements": len(bad) + len(bad_t)}
        if bad or bad_t:
            harness_errors.append("regex shim disagrees with re: %r" % ((bad + bad_t)[:3],))

    wall = time.time() - t0
    # ---- evidence
    level = getattr(mod, "LEVEL", "other")
    cov = {}
    samples = []
    for c, v in list(zip(conds, x_res))[:400]:
        s = {"condition": c.label, "verdict": v["verdict"], "paths": v["paths"], "cpu_s": v["cpu_s"]}
        if v.get("call"):
            s["counterexample"] = v["call"]
        samples.append(s)
    if p_res:
        cov.update(p_res.get("coverage", {}))
        samples = list(p_res.get("samples", [])) + samples
    cov["samples"] = samples[:60] if samples else [{"note": "no conditions"}]
    cov["crosshair_conditions"] = len(conds)
    cov["crosshair_confirmed_over_all_paths"] = n_conf
    cov["crosshair_twins_refuted"] = n_cex_expected
    cov["crosshair_not_exhausted"] = not_exhausted
    cov["crosshair_paths_explored"] = paths
    cov["solver_cpu_s"] = round(cpu + (p_res or {}).get("solver_s", 0.0), 1)
    cov["functions_encoded"] = getattr(mod, "FUNCTIONS", [])
    cov["bounds"] = (mod.bounds(tier) if hasattr(mod, "bounds") else getattr(mod, "BOUNDS", {}).get(tier, ""))
    cov["regex_shim_validation"] = rxv
    cov["known_findings_reported"] = sorted(seen_kf)
    cov["harness_errors"] = harness_errors
    cov["notes"] = notes
    nobl = len(conds) + (p_res or {}).get("queries", 0)
    cov["evaluations"] = max(1, nobl)
    cov["distinct_nontrivial"] = max(2, n_conf + n_cex_expected + (p_res or {}).get("queries_nontrivial", 0)) if nobl >= 2 else nobl
    cov["rule"] = ("one evaluation = one solver-decided obligation (a CrossHair condition explored over all paths, or one z3 query); "
                   "non-trivial = decided (confirmed/unsat, or refuted twin with a replayed witness); not-exhausted conditions are not counted")
    cov["explanation"] = (getattr(mod, "EXPLANATION", "") + " | tier=%s: %d CrossHair conditions (%d confirmed over all paths, %d twins refuted, %d not exhausted within budget), %d symbolic paths; %s" % (
        tier, len(conds), n_conf, n_cex_expected, n_notex, paths, (p_res or {}).get("summary", "no direct z3 part")))
    ev = {
        "property_id": pid, "tier": tier, "seed": seed, "level": level, "coverage": cov,
        "assumptions": list(getattr(mod, "ASSUMPTIONS", [])) + [
            "crosshair-tool 0.0.110 + z3: a condition counts as decided only when CrossHair reports 'Confirmed over all paths'",
            "kit.chpatch replaces CrossHair's LazyIntSymbolicStr.__eq__ (defect in 0.0.110); kit.rx stands in for the C module `re` and is diffed against `re` on every run",
            "counterexamples are replayed on the unmodified modules under /venv/bin/python before being reported",
        ],
        "wall_s": round(wall, 1), "violations": len(violations),
    }
    evdir = os.environ.get("VERIF_EVIDENCE_DIR") or os.path.join(VERIF, "evidence")
    os.makedirs(evdir, exist_ok=True)
    json.dump(ev, open(os.path.join(evdir, pid + ".json"), "w"), indent=1, default=str)

    for ne in not_exhausted:
        print("NOT-EXHAUSTED property=%s %s (no counterexample on %s paths)" % (pid, ne["condition"], ne["paths_without_counterexample"]))
    if violations:
        for v in violations:
            print("VIOLATION property=%s replay=%s" % (pid, v["replay"]))
            print("  " + v["what"][:600])
        return 1
    if harness_errors:
        for h in harness_errors:
            print("HARNESS-ERROR property=%s %s" % (pid, h[:1500]))
        return 2
    print("OK property=%s tier=%s conditions=%d confirmed=%d twins=%d not_exhausted=%d paths=%d wall=%.0fs %s" % (
        pid, tier, len(conds), n_conf, n_cex_expected, n_notex, paths, wall, (p_res or {}).get("summary", "")))
    return 0


def runner_errors():
    return (Exception,)


if __name__ == "__main__":
    sys.exit(main())
