"""Replay one counterexample call on the real modules: /venv/bin/python -m kit.replay <module> '<call>'.
Prints REPLAY-RESULT {"outcome": "violated"|"holds", ...}.  No CrossHair, no regex shim."""
import importlib
import json
import sys
import traceback


def main():
    mod_name, call = sys.argv[1], sys.argv[2]
    mod = importlib.import_module(mod_name)
    out = {"call": call}
    try:
        r = eval(call, vars(mod))
        if r is True:
            out["outcome"] = "holds"
        else:
            out["outcome"] = "violated"
            out["returned"] = repr(r)[:300]
            ex = getattr(mod, "explain", None)
            if ex is not None:
                try:
                    out["explain"] = str(ex(call))[:1500]
                except Exception:
                    pass
    except Exception as e:
        out["outcome"] = "violated"
        out["exception"] = "%s: %s" % (type(e).__name__, str(e)[:300])
        out["traceback"] = traceback.format_exc()[-1200:]
    sys.stdout.write("\nREPLAY-RESULT " + json.dumps(out) + "\n")


if __name__ == "__main__":
    main()
