"""Document writer: emits source lines AND the AST the statement of C03/C04/C11/C13 prescribes for them.

Every `w.<element>(...)` call appends the physical line(s) of one Gherkin element and returns the AST node expected for
it (keyword as written, name / step text = remainder of the line trimmed, 1-based line and code-point column, ids in the
canonical order from the writer's counter).  Text pieces may be CrossHair symbolic strings.  The writer shares no code
with the parser, matcher or builder.
"""
from .linespec import trim, is_blank


class W:
    def __init__(self, start_id=0, eol="\n"):
        self.lines = []
        self.n = start_id
        self.eol = eol
        self.comments = []
        self.kinds = {}     # id -> node kind (for C11 reference resolution)

    # ---- low level
    def raw(self, text, eol=None):
        self.lines.append(text + (self.eol if eol is None else eol))
        return len(self.lines)

    def id(self, kind):
        i = str(self.n)
        self.n += 1
        self.kinds[i] = kind
        return i

    def blank(self, text=""):
        return self.raw(text)

    def comment(self, ind, text):
        ln = self.raw(ind + "#" + text)
        self.comments.append({"location": {"line": ln, "column": 1}, "text": ind + "#" + text})
        return ln

    # ---- elements
    def tag_line(self, ind, names, sep=" "):
        """names: tag names without '@'; returns list of (line, column, '@name')"""
        text = ind
        out = []
        for i, nme in enumerate(names):
            if i:
                text += sep
            out.append((len(text) + 1, "@" + nme))
            text += "@" + nme
        ln = self.raw(text)
        return [(ln, c, t) for (c, t) in out]

    def finish_tags(self, pending):
        return [{"id": self.id("tag"), "location": {"line": ln, "column": c}, "name": t} for (ln, c, t) in pending]

    def row(self, ind, cells, pad=" "):
        """cells: raw cell texts (already escaped as written); value = un-escaped text, blanks trimmed"""
        text = ind + "|"
        out = []
        for c in cells:
            raw = pad + c + pad
            lead = 0
            while lead < len(raw) and is_blank(raw[lead]):
                lead += 1
            value = _unescape(raw)
            a = 0
            b = len(value)
            while a < b and is_blank(value[a]):
                a += 1
            while b > a and is_blank(value[b - 1]):
                b -= 1
            value = value[a:b]
            col = len(text) + 1 + (lead if value != "" else len(raw))
            out.append({"location": {"line": 0, "column": col}, "value": value})
            text += raw + "|"
        ln = self.raw(text)
        for c in out:
            c["location"]["line"] = ln
        return {"id": None, "location": {"line": ln, "column": len(ind) + 1}, "cells": out}

    def table(self, ind, rows, pad=" "):
        rs = [self.row(ind, r, pad) for r in rows]
        for r in rs:
            r["id"] = self.id("row")
        return [{"id": r["id"], "location": r["location"], "cells": r["cells"]} for r in rs]

    def doc_string(self, ind, delim, media, content_lines):
        """content_lines: physical content lines as written (each already including its own indentation)"""
        ln = self.raw(ind + delim + media)
        n = len(ind)
        out = []
        for l in content_lines:
            self.raw(l)
            k = 0
            while k < len(l) and l[k].isspace():
                k += 1
            t = l[n:] if k >= n else l[k:]
            esc = '\\"\\"\\"' if delim == '"""' else "\\`\\`\\`"
            out.append(t.replace(esc, delim))
        self.raw(ind + delim)
        d = {"location": {"line": ln, "column": n + 1}, "content": "\n".join(out), "delimiter": delim}
        mt = trim(media)
        if mt != "":
            d["mediaType"] = mt
        return d

    def step(self, ind, kw, text, ktype, table=None, doc=None, pad=" "):
        ln = self.raw(ind + kw + text)
        st = {"id": None, "location": {"line": ln, "column": len(ind) + 1}, "keyword": kw, "keywordType": ktype, "text": trim(text)}
        if table is not None:
            rows = self.table(ind + "  ", table, pad)
            st["dataTable"] = {"location": rows[0]["location"], "rows": rows}
        elif doc is not None:
            st["docString"] = self.doc_string(ind + "  ", *doc)
        st["id"] = self.id("step")
        return st

    def description(self, lines):
        """free-text / comment lines directly after a keyword line -> description per the statement of C03:
        starts at the first comment or text line, comment lines left out, trailing blank (white-space-only) lines dropped"""
        kept = []
        started = False
        for kind, text in lines:
            if kind == "empty-before":
                self.raw(text)
                continue
            if kind == "comment":
                ln = self.raw(text)
                self.comments.append({"location": {"line": ln, "column": 1}, "text": text})
                started = True
                continue
            self.raw(text)
            if not started and trim(text) == "":
                continue   # blank lines directly after the keyword line come before the description
            started = True
            kept.append(text)
        while kept and trim(kept[-1]) == "":
            kept.pop()
        return "\n".join(kept)

    def title(self, ind, kw, name):
        ln = self.raw(ind + kw + ":" + name)
        return {"location": {"line": ln, "column": len(ind) + 1}, "keyword": kw, "name": trim(name)}


def _unescape(raw):
    out = ""
    i = 0
    n = len(raw)
    while i < n:
        c = raw[i]
        if c == "\\" and i + 1 < n:
            d = raw[i + 1]
            if d == "n":
                out += "\n"
            elif d == "|" or d == "\\":
                out += d
            else:
                out += "\\" + d
            i += 2
        else:
            out += c
            i += 1
    return out


class ListIO:
    """io object by the readline contract over a list of physical lines"""

    def __init__(self, lines):
        self.lines = lines
        self.i = 0

    def readline(self):
        if self.i < len(self.lines):
            self.i += 1
            return self.lines[self.i - 1]
        return ""

    def __iter__(self):
        return self

    def __next__(self):
        l = self.readline()
        if l == "":
            raise StopIteration
        return l

    def close(self):
        pass


def scanner(lines):
    """the REAL TokenScanner reading from a list of physical lines (its io object replaced by the readline contract)"""
    from gherkin.token_scanner import TokenScanner
    sc = TokenScanner.__new__(TokenScanner)
    sc.io = ListIO(list(lines))
    sc.line_number = 0
    return sc
