"""Pure-Python backtracking regex engine over sre_parse trees.

Why: `re` is a C extension, i.e. an environment boundary for symbolic execution, and
crosshair-tool 0.0.110's own model of `re.sub`/empty matches is unsound (DESIGN §2).
This engine only indexes, compares and calls str methods, so CrossHair executes it on
symbolic subjects like any other Python.  Patterns are always concrete.

It is bound in place of `re` in the name spaces of the repository modules by kit.sym
(the *pattern strings stay whatever the current source contains*).  It is validated
against the real `re` on every run by kit.rxvalidate.  Unsupported constructs raise
`Unsupported` at compile time, which the runner turns into a harness error (exit 2).
"""
import re as _re

try:
    import re._parser as sre_parse
    import re._constants as sre_c
except ImportError:  # py<3.11
    import sre_parse
    import sre_constants as sre_c

MAXREPEAT = sre_c.MAXREPEAT
error = _re.error
escape = _re.escape
U = _re.U
UNICODE = _re.UNICODE
I = _re.I
IGNORECASE = _re.I
M = _re.M
MULTILINE = _re.M
S = _re.S
DOTALL = _re.S

SEEN_PATTERNS = {}  # pattern -> flags, recorded for validation


class Unsupported(Exception):
    pass


_SUPPORTED = {
    "LITERAL", "NOT_LITERAL", "ANY", "IN", "AT", "SUBPATTERN", "BRANCH",
    "MAX_REPEAT", "MIN_REPEAT",
}
_SUPPORTED_AT = {"AT_BEGINNING", "AT_END", "AT_BEGINNING_STRING", "AT_END_STRING"}
_SUPPORTED_CAT = {
    "CATEGORY_SPACE", "CATEGORY_NOT_SPACE", "CATEGORY_DIGIT", "CATEGORY_NOT_DIGIT",
    "CATEGORY_WORD", "CATEGORY_NOT_WORD",
}


def _check(nodes):
    for op, av in nodes:
        opn = str(op)
        if opn not in _SUPPORTED:
            raise Unsupported(opn)
        if opn == "AT" and str(av) not in _SUPPORTED_AT:
            raise Unsupported(str(av))
        if opn == "IN":
            for o2, a2 in av:
                o2 = str(o2)
                if o2 == "CATEGORY":
                    if str(a2) not in _SUPPORTED_CAT:
                        raise Unsupported(str(a2))
                elif o2 not in ("NEGATE", "LITERAL", "RANGE"):
                    raise Unsupported(o2)
        if opn == "SUBPATTERN":
            gid, af, df, sub = av
            if af or df:
                raise Unsupported("inline flags")
            _check(list(sub))
        if opn == "BRANCH":
            for alt in av[1]:
                _check(list(alt))
        if opn in ("MAX_REPEAT", "MIN_REPEAT"):
            _check(list(av[2]))


def _cat(cat, ch):
    n = str(cat)
    if n == "CATEGORY_SPACE":
        return ch.isspace()
    if n == "CATEGORY_NOT_SPACE":
        return not ch.isspace()
    if n == "CATEGORY_DIGIT":
        return ch.isdecimal()
    if n == "CATEGORY_NOT_DIGIT":
        return not ch.isdecimal()
    if n == "CATEGORY_WORD":
        return ch.isalnum() or ch == "_"
    if n == "CATEGORY_NOT_WORD":
        return not (ch.isalnum() or ch == "_")
    raise Unsupported(n)


def _in(items, ch):
    neg = False
    res = False
    o = ord(ch)
    for op, av in items:
        op = str(op)
        if op == "NEGATE":
            neg = True
        elif op == "LITERAL":
            if o == av:
                res = True
        elif op == "RANGE":
            if av[0] <= o <= av[1]:
                res = True
        elif op == "CATEGORY":
            if _cat(av, ch):
                res = True
        else:
            raise Unsupported(op)
    return res != neg


def _m(nodes, i, s, pos, groups, k, flags):
    """match nodes[i:] at pos; call continuation k(pos, groups) -> result or None"""
    if i == len(nodes):
        return k(pos, groups)
    op, av = nodes[i]
    opn = str(op)
    n = len(s)
    if opn == "LITERAL":
        if pos < n and ord(s[pos]) == av:
            return _m(nodes, i + 1, s, pos + 1, groups, k, flags)
        return None
    if opn == "NOT_LITERAL":
        if pos < n and ord(s[pos]) != av:
            return _m(nodes, i + 1, s, pos + 1, groups, k, flags)
        return None
    if opn == "ANY":
        if pos < n and ((flags & _re.S) or s[pos] != "\n"):
            return _m(nodes, i + 1, s, pos + 1, groups, k, flags)
        return None
    if opn == "IN":
        if pos < n and _in(av, s[pos]):
            return _m(nodes, i + 1, s, pos + 1, groups, k, flags)
        return None
    if opn == "AT":
        a = str(av)
        if a == "AT_BEGINNING":
            ok = pos == 0 or bool((flags & _re.M) and s[pos - 1] == "\n")
        elif a == "AT_BEGINNING_STRING":
            ok = pos == 0
        elif a == "AT_END":
            if flags & _re.M:
                ok = pos == n or s[pos] == "\n"
            else:
                ok = pos == n or (pos == n - 1 and s[pos] == "\n")
        elif a == "AT_END_STRING":
            ok = pos == n
        else:
            raise Unsupported(a)
        return _m(nodes, i + 1, s, pos, groups, k, flags) if ok else None
    if opn == "SUBPATTERN":
        gid, af, df, sub = av
        sub = list(sub)
        start = pos

        def k2(p, g):
            if gid is not None:
                g = dict(g)
                g[gid] = (start, p)
            return _m(nodes, i + 1, s, p, g, k, flags)

        return _m(sub, 0, s, pos, groups, k2, flags)
    if opn == "BRANCH":
        for alt in av[1]:
            r = _m(list(alt), 0, s, pos, groups,
                   lambda p, g: _m(nodes, i + 1, s, p, g, k, flags), flags)
            if r is not None:
                return r
        return None
    if opn in ("MAX_REPEAT", "MIN_REPEAT"):
        lo, hi, sub = av
        sub = list(sub)
        greedy = opn == "MAX_REPEAT"

        def rep(count, p, g):
            def more():
                if hi != MAXREPEAT and count >= hi:
                    return None

                def k3(p2, g2):
                    if p2 == p and count >= lo:
                        return None  # no progress
                    return rep(count + 1, p2, g2)

                return _m(sub, 0, s, p, g, k3, flags)

            def stop():
                if count < lo:
                    return None
                return _m(nodes, i + 1, s, p, g, k, flags)

            if greedy:
                r = more()
                return r if r is not None else stop()
            r = stop()
            return r if r is not None else more()

        return rep(0, pos, groups)
    raise Unsupported(opn)


class Match:
    def __init__(self, s, start, end, groups, ngroups, pattern):
        self.string = s
        self._s = start
        self._e = end
        self._g = groups
        self._n = ngroups
        self.re = pattern

    def start(self, g=0):
        return self._s if g == 0 else self._g.get(g, (-1, -1))[0]

    def end(self, g=0):
        return self._e if g == 0 else self._g.get(g, (-1, -1))[1]

    def span(self, g=0):
        return (self.start(g), self.end(g))

    def _one(self, g):
        if g == 0:
            return self.string[self._s:self._e]
        if not (1 <= g <= self._n):
            raise IndexError("no such group")
        if g not in self._g:
            return None
        a, b = self._g[g]
        return self.string[a:b]

    def group(self, *gs):
        if not gs:
            return self._one(0)
        if len(gs) == 1:
            return self._one(gs[0])
        return tuple(self._one(g) for g in gs)

    def groups(self, default=None):
        return tuple(
            (self._one(g) if g in self._g else default) for g in range(1, self._n + 1)
        )

    def __getitem__(self, g):
        return self._one(g)

    def __bool__(self):
        return True


class Pattern:
    def __init__(self, pattern, flags=0):
        if not isinstance(pattern, str):
            raise Unsupported("non-str pattern %r" % type(pattern))
        self.pattern = pattern
        self.flags = flags
        p = sre_parse.parse(pattern, flags)  # raises re.error like re.compile does
        self.flags = p.state.flags if hasattr(p.state, "flags") else flags
        self._nodes = list(p)
        _check(self._nodes)
        self.groups = p.state.groups - 1
        if flags & ~(_re.U | _re.M | _re.S):
            raise Unsupported("flags %r" % flags)
        SEEN_PATTERNS[pattern] = flags

    def _at(self, s, pos, full=False, nonempty=False):
        def k(p, g):
            if full and p != len(s):
                return None
            if nonempty and p == pos:
                return None
            return (p, g)

        r = _m(self._nodes, 0, s, pos, {}, k, self.flags)
        if r is None:
            return None
        return Match(s, pos, r[0], r[1], self.groups, self)

    def match(self, s, pos=0):
        return self._at(s, pos)

    def fullmatch(self, s):
        return self._at(s, 0, True)

    def _search(self, s, pos, must_advance=False):
        p = pos
        n = len(s)
        while p <= n:
            m = self._at(s, p, nonempty=(must_advance and p == pos))
            if m is not None:
                return m
            p += 1
        return None

    def search(self, s, pos=0):
        return self._search(s, pos)

    def finditer(self, s):
        pos = 0
        must = False
        while pos <= len(s):
            m = self._search(s, pos, must)
            if m is None:
                return
            yield m
            must = m.end() == m.start()
            pos = m.end()

    def findall(self, s):
        out = []
        for m in self.finditer(s):
            if self.groups == 0:
                out.append(m.group(0))
            elif self.groups == 1:
                out.append(m.group(1) or "")
            else:
                out.append(tuple(x or "" for x in m.groups()))
        return out

    def subn(self, repl, s, count=0):
        tmpl = None if callable(repl) else _parse_template(repl, self.groups)
        out = ""
        last = 0
        n = 0
        for m in self.finditer(s):
            if count and n >= count:
                break
            a, b = m.span()
            out += s[last:a] + (repl(m) if tmpl is None else _expand(tmpl, m))
            last = b
            n += 1
        return out + s[last:], n

    def sub(self, repl, s, count=0):
        return self.subn(repl, s, count)[0]

    def split(self, s, maxsplit=0):
        out = []
        last = 0
        n = 0
        for m in self.finditer(s):
            if maxsplit and n >= maxsplit:
                break
            a, b = m.span()
            out.append(s[last:a])
            for g in range(1, self.groups + 1):
                out.append(m.group(g))
            last = b
            n += 1
        out.append(s[last:])
        return out


_TEMPLATE_ESCAPES = {"a": "\a", "b": "\b", "f": "\f", "n": "\n", "r": "\r", "t": "\t",
                     "v": "\v", "\\": "\\"}
_ASCII_LETTERS = "abcdefghijklmnopqrstuvwxyzABCDEFGHIJKLMNOPQRSTUVWXYZ"
_DIGITS = "0123456789"


def _parse_template(repl, ngroups):
    """Replacement template -> list of str | int (group index); mirrors re._parser.parse_template."""
    out = []
    lit = ""
    i = 0
    n = len(repl)
    while i < n:
        c = repl[i]
        if c != "\\":
            lit += c
            i += 1
            continue
        if i + 1 >= n:
            raise error("bad escape (end of pattern)")
        d = repl[i + 1]
        if d == "g":
            if i + 2 >= n or repl[i + 2] != "<":
                raise error("missing <")
            j = i + 3
            name = ""
            while j < n and repl[j] != ">":
                name += repl[j]
                j += 1
            if j >= n:
                raise error("missing >, unterminated name")
            if name == "" or not all(ch in _DIGITS for ch in name):
                # named groups are not supported by this shim (no named groups in the patterns it serves)
                raise error("bad character in group name %r" % name if name else "missing group name")
            idx = int(name)
            if idx > ngroups:
                raise error("invalid group reference %d" % idx)
            if lit:
                out.append(lit)
                lit = ""
            out.append(idx)
            i = j + 1
        elif d == "0":
            # octal escape
            j = i + 2
            digs = ""
            while j < n and len(digs) < 2 and repl[j] in "01234567":
                digs += repl[j]
                j += 1
            lit += chr(int("0" + digs, 8) & 0xFF)
            i = j
        elif d in _DIGITS:
            j = i + 2
            digs = d
            if j < n and repl[j] in _DIGITS:
                if d in "0123" and repl[j] in "01234567" and j + 1 < n and repl[j + 1] in "01234567":
                    v = int(digs + repl[j] + repl[j + 1], 8)
                    if v > 0o377:
                        raise error("octal escape value out of range")
                    lit += chr(v)
                    i = j + 2
                    continue
                digs += repl[j]
                j += 1
            idx = int(digs)
            if idx > ngroups:
                raise error("invalid group reference %d" % idx)
            if lit:
                out.append(lit)
                lit = ""
            out.append(idx)
            i = j
        elif d in _TEMPLATE_ESCAPES:
            lit += _TEMPLATE_ESCAPES[d]
            i += 2
        elif d in _ASCII_LETTERS:
            raise error("bad escape \\" + d)
        else:
            lit += c + d
            i += 2
    if lit:
        out.append(lit)
    return out


def _expand(tmpl, m):
    out = ""
    for part in tmpl:
        if isinstance(part, int):
            out += m.group(part) or ""
        else:
            out += part
    return out


_CACHE = {}

try:
    from crosshair.tracers import NoTracing as _NoTracing
except Exception:  # pragma: no cover
    _NoTracing = None


def _all_concrete(*vals):
    """True when every value is a real str (not a CrossHair symbolic): then the real `re` is used directly -
    the shim exists only to give symbolic subjects an executable semantics"""
    if _NoTracing is None:
        return False
    with _NoTracing():
        for v in vals:
            if type(v) is not str:
                return False
        return True


def compile(p, flags=0):
    if isinstance(p, Pattern):
        return p
    key = (p, flags)
    try:
        return _CACHE[key]
    except (KeyError, TypeError):
        pass
    pat = Pattern(p, flags)
    _CACHE[key] = pat
    return pat


def sub(p, repl, s, count=0, flags=0):
    if _all_concrete(p, repl, s):
        SEEN_PATTERNS.setdefault(p, flags)
        with _NoTracing():
            return _re.sub(p, repl, s, count, flags)
    return compile(p, flags).sub(repl, s, count)


def subn(p, repl, s, count=0, flags=0):
    return compile(p, flags).subn(repl, s, count)


def split(p, s, maxsplit=0, flags=0):
    return compile(p, flags).split(s, maxsplit)


def search(p, s, flags=0):
    return compile(p, flags).search(s)


def match(p, s, flags=0):
    return compile(p, flags).match(s)


def fullmatch(p, s, flags=0):
    return compile(p, flags).fullmatch(s)


def finditer(p, s, flags=0):
    return compile(p, flags).finditer(s)


def findall(p, s, flags=0):
    return compile(p, flags).findall(s)
