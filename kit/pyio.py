"""Pure-Python stand-ins for the two environment objects TokenScanner touches (`io.StringIO`, `os.path.exists`/`open`),
written from the documented contracts of the standard library so that CrossHair can execute them on symbolic text.

io.StringIO(initial_value, newline="\\n"): text buffer.  newline="\\n" (the default): no translation, lines end at "\\n" only;
newline=None: universal newlines - "\\r\\n" and "\\r" are translated to "\\n" on write; newline="": no translation, lines end at
"\\n", "\\r" or "\\r\\n".  readline() returns the text up to and including the next line end, "" at the end.  Iteration
yields the same lines.  A text-mode file opened with open(path, encoding=...) (newline=None) translates "\\r\\n" and "\\r" to "\\n".
"""


class StringIO:
    def __init__(self, initial_value="", newline="\n"):
        s = initial_value
        if newline is None:
            s = s.replace("\r\n", "\n").replace("\r", "\n")
        elif newline not in ("", "\n"):
            s = s.replace("\n", newline)
        self._s = s
        self._pos = 0
        self._newline = newline
        self.closed = False

    def readline(self, size=-1):
        s = self._s
        n = len(s)
        i = self._pos
        if i >= n:
            return ""
        j = i
        while j < n:
            c = s[j]
            if c == "\n":
                j += 1
                break
            if self._newline == "" and c == "\r":
                j += 1
                if j < n and s[j] == "\n":
                    j += 1
                break
            j += 1
        self._pos = j
        return s[i:j]

    def read(self, size=-1):
        r = self._s[self._pos:]
        self._pos = len(self._s)
        return r

    def __iter__(self):
        return self

    def __next__(self):
        line = self.readline()
        if line == "":
            raise StopIteration
        return line

    def close(self):
        self.closed = True


class _Path:
    def __init__(self, exists):
        self._exists = exists

    def exists(self, p):
        return self._exists


class OS:
    """os stand-in: path.exists answers a fixed bool chosen by the harness"""

    def __init__(self, exists=False):
        self.path = _Path(exists)


def hybrid_io():
    """module-like object: StringIO on a concrete str is the real io.StringIO (a C boundary is harmless on concrete
    input), on a symbolic str the contract model above"""
    import io as _io
    import types
    from .sym import is_concrete_str

    def _StringIO(initial_value="", newline="\n"):
        if is_concrete_str(initial_value):
            return _io.StringIO(initial_value, newline)
        return StringIO(initial_value, newline)

    m = types.SimpleNamespace()
    m.StringIO = _StringIO
    return m
