"""LL automaton derived from gherkin.berp (this framework's reading of the grammar semantics).

Configurations are call paths with a position (the same objects the state comments in the
generated parsers name).  Transitions by innermost-continuation-first closure over ?, *, +,
alternatives; `!` rules emit start/end productions; a transition entering a rule that carries
a hint [skip->expected] on a token of the skip set is guarded by that look-ahead; ignored
tokens get a build-only self loop where they have no explicit transition and #Other is not
expected; #EOF closes every open rule when the rest is nullable.
"""
import collections
import os
import re

def parse_berp(path):
    txt = open(path, encoding="utf8").read()
    hdr = re.search(r"\[(.*?)\]", txt, re.S).group(1)
    ignored = re.search(r"IgnoredTokens\s*->\s*(.*)", hdr).group(1).strip().split(",")
    body = txt[txt.index("]", txt.index("Namespace")) + 1:]
    rules = collections.OrderedDict()
    tmp = [0]
    for line in body.splitlines():
        line = line.split("//")[0].strip()
        if not line: continue
        m = re.match(r"^(\w+)(!?)\s*(\[[^\]]*\])?\s*:=\s*(.*)$", line)
        assert m, line
        name, bang, hint, rhs = m.groups()
        h = None
        if hint:
            skip, exp = hint[1:-1].split("->")
            h = (skip.split("|"), exp.split("|"))
        elems = []
        for em in re.finditer(r"\(([^)]*)\)([?*+]?)|(#?\w+)([?*+]?)", rhs):
            if em.group(1) is not None:
                alts = [a.strip() for a in em.group(1).split("|")]
                an = "__alt%d" % tmp[0]; tmp[0] += 1
                rules_alt = ("alt", alts)
                elems.append((an, em.group(2) or "1", rules_alt))
            else:
                elems.append((em.group(3), em.group(4) or "1", None))
        rules[name] = dict(bang=bool(bang), hint=h, elems=elems)
    # register alt temp rules
    for r in list(rules.values()):
        for (n, mult, alt) in r["elems"]:
            if alt: rules[n] = dict(bang=False, hint=None, alts=alt[1])
    return rules, ignored

RULES, IGNORED = parse_berp(os.path.join(os.environ.get("VERIF_REPO", "/repo"), "gherkin.berp"))
START = "GherkinDocument"

def nullable_sym(sym):
    if sym.startswith("#"): return False
    r = RULES[sym]
    if "alts" in r: return any(nullable_sym(a) for a in r["alts"])
    return all(mult in "?*" or nullable_sym(n) for (n, mult, _) in r["elems"])

def firsts(sym, stack, prods, hints):
    """yield (token, new_stack_after_token, prods, hints) for entering symbol `sym` (stack = frames tuple)"""
    if sym.startswith("#"):
        yield (sym, stack, prods + [("build",)], hints)
        return
    r = RULES[sym]
    p2 = prods + ([("start_rule", sym)] if r["bang"] else [])
    h2 = hints + ([r["hint"]] if r["hint"] else [])
    if "alts" in r:
        for i, a in enumerate(r["alts"]):
            yield from firsts(a, stack + ((sym, i),), p2, h2)
        return
    for i, (n, mult, _) in enumerate(r["elems"]):
        yield from firsts(n, stack + ((sym, i),), p2, h2)
        if not (mult in "?*" or nullable_sym(n)): break

def after(stack, prods):
    """options after the symbol at top frame of stack has been completed. stack frames: (rule, idx)."""
    if not stack:
        yield ("#EOF", (), prods + [("build",)], [])
        return
    rule, idx = stack[-1]
    r = RULES[rule]
    base = stack[:-1]
    if "alts" in r:
        # alternative group done -> group symbol done in parent
        yield from after(base, prods)   # temp rules never bang
        return
    n, mult, _ = r["elems"][idx]
    if mult in "*+":
        yield from firsts(n, base + ((rule, idx),), prods, [])  # repeat
    j = idx + 1
    while j < len(r["elems"]):
        n2, m2, _ = r["elems"][j]
        yield from firsts(n2, base + ((rule, j),), prods, [])
        if not (m2 in "?*" or nullable_sym(n2)): return
        j += 1
    yield from after(base, prods + ([("end_rule", rule)] if r["bang"] else []))

def options(config):
    if config == "START":
        opts = list(firsts(START, (), [], []))   # start_rule(GherkinDocument) is done by parse() itself
        opts = [(t, s, [p for p in pr if p != ("start_rule", START)], h) for (t, s, pr, h) in opts]
        if nullable_sym(START): opts.append(("#EOF", "END", [("build",)], []))
    else:
        opts = []
        for (t, s, pr, h) in after(config, []):
            if t == "#EOF":
                pr = [p for p in pr if p != ("end_rule", START)]
                s = "END"
            opts.append((t, s, pr, h))
    # the hint applies only when the token is in the hint's skip set
    out = []
    for (t, s, pr, h) in opts:
        la = None
        for hh in h:
            if t in hh[0]: la = (tuple(hh[0]), tuple(hh[1]))
        out.append((t, la, pr, s))
    toks = [t for (t, _, _, _) in out]
    if "#Other" not in toks:
        for ig in IGNORED:
            if ig not in toks: out.append((ig, None, [("build",)], config))
    return out

def token_config(stack_after):  # config identified by the stack including the token frame
    return stack_after

def build():
    configs = {}
    todo = ["START"]
    while todo:
        c = todo.pop()
        if c in configs: continue
        configs[c] = options(c)
        for (t, la, pr, s) in configs[c]:
            if s != "END" and s not in configs: todo.append(s)
    return configs



def oracle_step(cfg, c, kind, la_out):
    """own kind first, then Comment (a language header is a comment), then free text, else error.
    kind/tokens carry the leading '#'.  la_out maps (skip tuple, expected tuple) -> bool."""
    cands = [kind] + (["#Comment"] if kind == "#Language" else []) + (["#Other"] if kind not in ("#EOF", "#Other") else [])
    for want in cands:
        for (t, la, pr, s) in cfg[c]:
            if t == want:
                if la is not None and not la_out[la]:
                    continue
                return ("ok", tuple(tuple(p) for p in pr), s)
    return ("err", expected_list(cfg, c), c)


def expected_list(cfg, c):
    exp = list(dict.fromkeys(t for (t, _, _, _) in cfg[c]))
    return tuple([t for t in exp if t == "#EOF"] + [t for t in exp if t not in ("#EOF", "#Other")] + [t for t in exp if t == "#Other"])
