"""Engine P: z3 encoding of the transition tables extracted from the generated parsers.

`encode(tables)` turns one table set into z3 functions of (state, match vector, look-ahead
outcomes): the index of the first enabled transition's outcome in a shared outcome universe.
Queries (each decided by z3 over finite sorts; `unsat` = holds for every state / vector):

  sibling_equal      Python table == sibling table on every (state, 2^14 match vectors, 4 look-ahead outcomes)
  bisimulation       inductive step: every pair of the candidate relation R (Python state, grammar
                     configuration) agrees on accept/error, productions, expected list, and steps into R
  closed             every target state is defined (no "Unknown state")
  docstring_opaque   doc-string content states leave only through DocStringSeparator, keep everything else as Other
  empty_selfloop     where Empty is asked for it is a build-only self loop
  comment_neutral    Comment is a build-only self loop or opens/continues a Description and nothing else
"""
import time

import z3

from . import berp
from .extract import KINDS

LA_IDS = ["lookahead_0", "lookahead_1"]


class Universe:
    def __init__(self):
        self.ids = {}
        self.items = []

    def id(self, key):
        if key not in self.ids:
            self.ids[key] = len(self.items)
            self.items.append(key)
        return self.ids[key]


def norm_prods(prods, drop_end_names=False):
    out = []
    for p in prods:
        if p[0] == "build":
            out.append(("build",))
        elif p[0] == "end_rule" and (drop_end_names or len(p) < 2 or p[1] is None):
            out.append(("end_rule", None))
        else:
            out.append((p[0], p[1]))
    return tuple(out)


class Vars:
    def __init__(self, tag=""):
        self.state = z3.Int("state" + tag)
        self.m = {k: z3.Bool("m_%s%s" % (k, tag)) for k in KINDS}
        self.la = {l: z3.Bool("%s%s" % (l, tag)) for l in LA_IDS}


def encode(states, uni, v, drop_end_names=False, with_expected=True):
    """z3 Int expression: outcome id of the first enabled transition (or of the error) at v."""
    expr = z3.IntVal(uni.id(("undefined",)))
    for n in sorted(states, reverse=True):
        st = states[n]
        err_key = ("err", tuple(st["expected"]) if with_expected else None, st["stay"])
        e = z3.IntVal(uni.id(err_key))
        for (kind, la, prods, tgt) in reversed(st["trans"]):
            guard = v.m[kind]
            if la is not None:
                guard = z3.And(guard, v.la[la])
            e = z3.If(guard, z3.IntVal(uni.id(("ok", norm_prods(prods, drop_end_names), tgt))), e)
        expr = z3.If(v.state == n, e, expr)
    return expr


def _check(s, label, results, expect="unsat"):
    t0 = time.time()
    r = str(s.check())
    dt = time.time() - t0
    rec = {"query": label, "result": r, "expect": expect, "solver_s": round(dt, 3)}
    if r == "sat":
        m = s.model()
        rec["model"] = {str(d): str(m[d]) for d in m.decls()}
    results.append(rec)
    return rec


def mc_feasible(v):
    """match vectors a contract-abiding matcher can produce on one token (MC1/MC2)"""
    own = [k for k in KINDS if k not in ("Other", "EOF")]
    non_eof = z3.And(z3.Not(v.m["EOF"]), v.m["Other"])
    excl = []
    for i, a in enumerate(own):
        for b in own[i + 1:]:
            if {a, b} == {"Language", "Comment"}:
                continue
            excl.append(z3.Not(z3.And(v.m[a], v.m[b])))
    lang = z3.Implies(v.m["Language"], v.m["Comment"])
    eof = z3.And(v.m["EOF"], *[z3.Not(v.m[k]) for k in KINDS if k != "EOF"])
    return z3.Or(eof, z3.And(non_eof, lang, *excl))


def q_sibling_equal(py_states, sib_states, lang, results):
    named = any(len(p) > 1 and p[0] == "end_rule" and p[1] is not None for st in sib_states.values() for (_, _, pr, _) in st["trans"] for p in pr)
    uni = Universe()
    v = Vars()
    a = encode(py_states, uni, v, drop_end_names=not named)
    b = encode(sib_states, uni, v, drop_end_names=not named)
    s = z3.Solver()
    s.add(z3.Or(*[v.state == n for n in set(py_states) | set(sib_states)]))
    s.add(a != b)
    rec = _check(s, "sibling_equal[%s]%s" % (lang, "" if named else " (end_rule names not carried by this sibling: compared by position)"), results)
    # vacuity twin: the two encodings are satisfiable together
    s2 = z3.Solver()
    s2.add(z3.Or(*[v.state == n for n in py_states]))
    s2.add(a == b)
    _check(s2, "sibling_equal[%s] twin (encodings jointly satisfiable)" % lang, results, expect="sat")
    return rec


def vec_of_kind(v, kind):
    """the match vector of a line whose own kind is `kind` (MC2): its kind, Comment for a language header, Other"""
    true = {kind}
    if kind == "Language":
        true.add("Comment")
    if kind != "EOF":
        true.add("Other")
    return z3.And(*[(v.m[k] if k in true else z3.Not(v.m[k])) for k in KINDS])


def joint_walk(py_states, cfg):
    """candidate bisimulation relation by a joint walk (plain exploration; z3 then checks it is inductive)"""
    la_key = {}
    for lid, (skip, exp) in berp_la_keys(cfg).items():
        la_key[lid] = (skip, exp)
    rel = set()
    todo = [(0, "START")]
    while todo:
        s, c = todo.pop()
        if (s, c) in rel:
            continue
        rel.add((s, c))
        for kind in KINDS:
            for b0 in (False, True):
                for b1 in (False, True):
                    o = berp.oracle_step(cfg, c, "#" + kind, {la_key["lookahead_0"]: b0, la_key["lookahead_1"]: b1})
                    i = impl_step(py_states, s, kind, {"lookahead_0": b0, "lookahead_1": b1})
                    if o[0] == "ok" and i[0] == "ok" and i[2] != 34 and o[2] != "END":
                        todo.append((i[2], o[2]))
    return rel


def berp_la_keys(cfg):
    """map lookahead_0 / lookahead_1 to the (skip, expected) hints of the grammar: 0 = ScenarioLine, 1 = ExamplesLine"""
    keys = set()
    for opts in cfg.values():
        for (t, la, pr, s) in opts:
            if la is not None:
                keys.add(la)
    out = {}
    for (skip, exp) in keys:
        if exp == ("#ScenarioLine",):
            out["lookahead_0"] = (skip, exp)
        elif exp == ("#ExamplesLine",):
            out["lookahead_1"] = (skip, exp)
    if set(out) != set(LA_IDS):
        raise ValueError("grammar hints do not map onto the two look-aheads: %r" % (keys,))
    return out


def impl_step(py_states, s, kind, la_out):
    true = {kind}
    if kind == "Language":
        true.add("Comment")
    if kind != "EOF":
        true.add("Other")
    for (mk, la, prods, tgt) in py_states[s]["trans"]:
        if mk in true:
            if la is not None and not la_out[la]:
                continue
            return ("ok", norm_prods(prods), tgt)
    return ("err", tuple(py_states[s]["expected"]), py_states[s]["stay"])


def q_bisimulation(py_states, cfg, results):
    la_key = berp_la_keys(cfg)
    rel = sorted(joint_walk(py_states, cfg), key=lambda p: (p[0], str(p[1])))
    cfg_ids = {c: i for i, c in enumerate(sorted(cfg, key=str))}
    cfg_ids["END"] = len(cfg_ids)
    uni = Universe()
    v = Vars()
    c = z3.Int("config")
    kind = z3.Int("kind")
    impl = encode(py_states, uni, v)
    # oracle outcome as a z3 function of (config, kind, la)
    orc = z3.IntVal(uni.id(("undefined-oracle",)))
    succ_rel = z3.BoolVal(False)  # successor pair in R (or both final)
    rel_set = set(rel)
    for (s_n, c_n) in rel:
        per_kind = z3.IntVal(uni.id(("undefined-oracle",)))
        per_kind_in = z3.BoolVal(False)
        for ki, k in enumerate(KINDS):
            cases = z3.IntVal(uni.id(("undefined-oracle",)))
            cases_in = z3.BoolVal(False)
            for b0 in (False, True):
                for b1 in (False, True):
                    o = berp.oracle_step(cfg, c_n, "#" + k, {la_key["lookahead_0"]: b0, la_key["lookahead_1"]: b1})
                    i = impl_step(py_states, s_n, k, {"lookahead_0": b0, "lookahead_1": b1})
                    if o[0] == "ok":
                        # oracle outcome translated into the implementation's outcome universe via R:
                        # productions must be equal, and the successor pair must be in R
                        tgt_ok = (i[0] == "ok") and (((i[2] == 34) and (o[2] == "END")) or ((i[2], o[2]) in rel_set))
                        key = ("ok", norm_prods(o[1]), i[2] if i[0] == "ok" else -1)
                    else:
                        tgt_ok = True
                        key = ("err", tuple(t for t in o[1]), s_n)
                    cond = z3.And(v.la["lookahead_0"] == b0, v.la["lookahead_1"] == b1)
                    cases = z3.If(cond, z3.IntVal(uni.id(key)), cases)
                    cases_in = z3.If(cond, z3.BoolVal(tgt_ok), cases_in)
            per_kind = z3.If(kind == ki, cases, per_kind)
            per_kind_in = z3.If(kind == ki, cases_in, per_kind_in)
        here = z3.And(v.state == s_n, c == cfg_ids[c_n])
        orc = z3.If(here, per_kind, orc)
        succ_rel = z3.If(here, per_kind_in, succ_rel)
    s = z3.Solver()
    s.add(z3.Or(*[z3.And(v.state == s_n, c == cfg_ids[c_n]) for (s_n, c_n) in rel]))
    s.add(z3.And(kind >= 0, kind < len(KINDS)))
    s.add(z3.Or(*[z3.And(kind == ki, vec_of_kind(v, k)) for ki, k in enumerate(KINDS)]))
    s.add(z3.Or(impl != orc, z3.Not(succ_rel)))
    rec = _check(s, "bisimulation step over R (|R|=%d pairs, %d impl states, %d grammar configurations)" % (
        len(rel), len(set(p[0] for p in rel)), len(set(p[1] for p in rel))), results)
    s2 = z3.Solver()
    s2.add(z3.Or(*[z3.And(v.state == s_n, c == cfg_ids[c_n]) for (s_n, c_n) in rel]))
    s2.add(z3.And(kind >= 0, kind < len(KINDS)))
    s2.add(z3.Or(*[z3.And(kind == ki, vec_of_kind(v, k)) for ki, k in enumerate(KINDS)]))
    s2.add(impl == orc)
    _check(s2, "bisimulation twin (relation non-empty, encodings jointly satisfiable)", results, expect="sat")
    covered = set(p[0] for p in rel)
    missing = sorted(set(py_states) - covered)
    results.append({"query": "all implementation states are related to a grammar configuration", "result": "unsat" if not missing else "sat",
                    "expect": "unsat", "solver_s": 0.0, "model": {"unrelated_states": missing} if missing else None,
                    "note": "set difference computed on the relation; not a solver query"})
    return rec, rel


def q_closed(py_states, results):
    uni = Universe()
    v = Vars()
    tgt = z3.IntVal(-1)
    for n in sorted(py_states, reverse=True):
        st = py_states[n]
        e = z3.IntVal(st["stay"])
        for (kind, la, prods, t) in reversed(st["trans"]):
            g = v.m[kind] if la is None else z3.And(v.m[kind], v.la[la])
            e = z3.If(g, z3.IntVal(t), e)
        tgt = z3.If(v.state == n, e, tgt)
    s = z3.Solver()
    s.add(z3.Or(*[v.state == n for n in py_states]))
    s.add(z3.And(*[tgt != n for n in py_states]), tgt != 34)
    return _check(s, "closed: every reachable target is a defined state or the final state 34", results)


def docstring_states(py_states):
    return sorted(n for n, st in py_states.items() if st["comment"].endswith("DocString:0>#DocStringSeparator:0")
                  or st["comment"].endswith("DocString:1>#Other:0"))


def q_docstring_opaque(py_states, results):
    ds = docstring_states(py_states)
    uni = Universe()
    v = Vars()
    enc = encode(py_states, uni, v)
    s = z3.Solver()
    s.add(z3.Or(*[v.state == n for n in ds]) if ds else z3.BoolVal(False))
    s.add(z3.Not(v.m["EOF"]), v.m["Other"])
    # expected: separator -> [build] into a non-doc-string state; anything else -> [build], stay in a doc-string content state
    bad = []
    for n in ds:
        allowed = []
        for key, i in list(uni.ids.items()):
            pass
        st = py_states[n]
        seps = [(p, t) for (k, la, p, t) in st["trans"] if k == "DocStringSeparator" and la is None]
        others = [(p, t) for (k, la, p, t) in st["trans"] if k == "Other" and la is None]
        ok_sep = len(seps) == 1 and norm_prods(seps[0][0]) == (("build",),) and seps[0][1] not in ds
        ok_oth = len(others) == 1 and norm_prods(others[0][0]) == (("build",),) and others[0][1] in ds
        if not (ok_sep and ok_oth):
            bad.append(n)
            continue
        want = z3.If(v.m["DocStringSeparator"], z3.IntVal(uni.id(("ok", (("build",),), seps[0][1]))),
                     z3.IntVal(uni.id(("ok", (("build",),), others[0][1]))))
        s.push()
        s.add(v.state == n, enc != want)
        _check(s, "docstring_opaque[state %d]: any non-EOF line is content unless the separator matches" % n, results)
        s.pop()
    results.append({"query": "docstring states have exactly one separator and one content transition", "result": "unsat" if not bad and ds else "sat",
                    "expect": "unsat", "solver_s": 0.0, "model": {"states": bad, "docstring_states": ds}})
    return ds


def q_empty_selfloop(py_states, results):
    uni = Universe()
    v = Vars()
    enc = encode(py_states, uni, v)
    s = z3.Solver()
    asked = [n for n, st in py_states.items() if any(k == "Empty" for (k, _, _, _) in st["trans"])]
    conds = []
    for n in asked:
        conds.append(z3.And(v.state == n, enc != uni.id(("ok", (("build",),), n))))
    s.add(vec_of_kind(v, "Empty"))
    s.add(z3.Or(*conds))
    _check(s, "empty_selfloop: in the %d states that ask for #Empty a blank line is built and nothing else happens" % len(asked), results)
    not_asked = sorted(set(py_states) - set(asked))
    return asked, not_asked


def q_lookaheads(py_las, results, cfg=None):
    """look-ahead definitions: for every kind, membership in the expected / skip set of each Python look-ahead equals the
    sibling parsers' and the hint of gherkin.berp ([skip->expected])"""
    from . import extract
    k = z3.Int("kind")

    def member(names):
        return z3.Or(*[k == KINDS.index(n) for n in names]) if names else z3.BoolVal(False)

    refs = {}
    for lang in extract.SIBLINGS:
        refs[lang] = extract.sibling_lookaheads(lang)
    if cfg is not None:
        keys = berp_la_keys(cfg)
        refs["gherkin.berp"] = {la: {"expected": [t[1:] for t in keys[la][1]], "skip": [t[1:] for t in keys[la][0]]} for la in keys}
    for name, ref in refs.items():
        s = z3.Solver()
        s.add(k >= 0, k < len(KINDS))
        diffs = []
        for la in LA_IDS:
            if la not in ref:
                diffs.append(z3.BoolVal(True))
                continue
            diffs.append(member(py_las[la]["expected"]) != member(ref[la]["expected"]))
            diffs.append(member(py_las[la]["skip"]) != member(ref[la]["skip"]))
        s.add(z3.Or(*diffs))
        _check(s, "look-ahead definitions (expected / skip sets) equal %s" % name, results)
