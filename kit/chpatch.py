# workaround for crosshair 0.0.110: LazyIntSymbolicStr.__eq__ compares a plain tuple of
# codepoints against a SymbolicBoundedIntTuple with tuple.__eq__ semantics (-> False).
from crosshair.libimpl import builtinslib as _bl
from crosshair.tracers import NoTracing, ResumedTracing

def _eq(self, other):
    with NoTracing():
        mypoints = self._codepoints
        if isinstance(other, _bl.LazyIntSymbolicStr):
            otherpoints = other._codepoints
        elif isinstance(other, str):
            otherpoints = [ord(ch) for ch in other]
        else:
            return NotImplemented
    with ResumedTracing():
        if len(mypoints) != len(otherpoints):
            return False
        for a, b in zip(mypoints, otherpoints):
            if a != b:
                return False
        return True
_bl.LazyIntSymbolicStr.__eq__ = _eq

# workaround 2: relib._match_pattern calls len(symbolic) while not tracing when the match is empty
from crosshair.libimpl import relib as _rl
_orig_match_pattern = _rl._match_pattern
def _match_pattern(compiled_regex, orig_str, pos, endpos=None, subpattern=None, allow_empty=True, ord=ord, chr=chr):
    if subpattern is None:
        subpattern = list(_rl.parse(compiled_regex.pattern, compiled_regex.flags))
    with ResumedTracing():
        trimmed_str = orig_str[:endpos]
        total_len = len(orig_str)
    matchpart = _rl._internal_match_patterns(subpattern, compiled_regex.flags, trimmed_str, pos, allow_empty, ord=ord, chr=chr)
    if matchpart is None:
        return None
    match_start, match_end = matchpart._fullspan()
    if _rl._traced_binop(match_start, _rl.operator.eq, match_end):
        matchpart._clamp_all_spans(0, total_len)
    return _rl._Match(matchpart._groups, pos, endpos, compiled_regex, orig_str)
_rl._match_pattern = _match_pattern
