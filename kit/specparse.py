"""Specification-level parser over abstract line kinds, driven by the automaton derived from
gherkin.berp (kit.berp) — the oracle for the real-parser harnesses.  Shares no code with
python/gherkin/parser.py.

A line is read as its own kind where that kind is expected, a language header also as a
comment, otherwise as free text where free text is expected, otherwise it is an unexpected
line: the error lists the expected kinds, the parser stays where it is and goes on with the
next line.  Identical errors are reported once; the eleventh error ends the parse.
A tag line with a bad tag, or an unknown language header (asked for only at the very top),
reports its own error *and then counts as a line of no own kind* (this continuation is not
fixed by the property text; it is what all sibling implementations do).
A table whose rows differ in cell count reports an error at the first deviating row when the
table is closed, and the table is dropped.
"""
from . import berp
from .pdrive import (EMPTY, COMMENT, TAG, TAGBAD, FEATURE, RULE, BACKGROUND, SCENARIO, EXAMPLES, STEP,
                     DOCA, DOCB, ROW1, ROW2, LANGUAGE, LANGBAD, OTHER)

CFG = berp.build()
CAP = 11

_OWN = {EMPTY: "#Empty", COMMENT: "#Comment", TAG: "#TagLine", FEATURE: "#FeatureLine", RULE: "#RuleLine",
        BACKGROUND: "#BackgroundLine", SCENARIO: "#ScenarioLine", EXAMPLES: "#ExamplesLine", STEP: "#StepLine",
        ROW1: "#TableRow", ROW2: "#TableRow", LANGUAGE: "#Language", OTHER: "#Other"}


def own_kinds(kind, active):
    """token kinds a line can be read as, in priority order (before the #Other fall-back)"""
    if kind is None:
        return ["#EOF"]
    if kind == DOCA or kind == DOCB:
        sep = '"""' if kind == DOCA else "```"
        if active is None or active == sep:
            return ["#DocStringSeparator", "#Other"]
        return ["#Other"]
    if kind == TAGBAD:
        return ["#Other"]
    if kind == LANGBAD:
        return ["#Comment", "#Other"]
    if kind == LANGUAGE:
        return ["#Language", "#Comment", "#Other"]
    if kind == OTHER:
        return ["#Other"]
    return [_OWN[kind], "#Other"]


class Stop(Exception):
    pass


def spec_parse(kinds, stop=False, cfg=None):
    return _run(kinds, stop, cfg or CFG, eof=True)


def _run(kinds, stop, cfg, eof=True):
    n = len(kinds)
    events = [("start", "GherkinDocument")]
    errors = []          # (class, line, payload)
    state = {"c": "START", "active": None}
    tables = []          # stack of open tables: [rule, [(line, ncells)]]
    built = []

    def add_error(e):
        if stop:
            raise Stop(e)
        if e not in errors:
            errors.append(e)
            if len(errors) >= CAP:
                raise Stop(None)

    def lookahead(i, la):
        skip, expected = la
        j = i + 1
        while True:
            k = kinds[j] if j < n else None
            if k == TAGBAD:
                add_error(("tag", j + 1, None))
                return False
            ks = own_kinds(k, None)
            if any(x in expected for x in ks):
                return True
            if not any(x in skip for x in ks):
                return False
            j += 1

    def asks(c, tok):
        return any(t == tok for (t, _, _, _) in cfg[c])

    try:
        for i in range(n + 1 if eof else n):
            k = kinds[i] if i < n else None
            c = state["c"]
            if c == "END":
                break
            line = i + 1
            if k == LANGBAD and asks(c, "#Language"):
                add_error(("lang", line, None))
            if k == TAGBAD and asks(c, "#TagLine"):
                add_error(("tag", line, None))
            done = False
            for want in own_kinds(k, state["active"]):
                for (t, la, pr, s) in cfg[c]:
                    if t != want:
                        continue
                    if la is not None and not lookahead(i, la):
                        continue
                    # take it
                    for p in pr:
                        if p[0] == "start_rule":
                            events.append(("start", p[1]))
                            if p[1] in ("DataTable", "ExamplesTable"):
                                tables.append([p[1], []])
                        elif p[0] == "end_rule":
                            events.append(("end", p[1]))
                            if p[1] in ("DataTable", "ExamplesTable"):
                                rule, rows = tables.pop()
                                for (ln, nc) in rows:
                                    if nc != rows[0][1]:
                                        add_error(("ragged", ln, None))
                                        break
                        else:
                            mtype = want[1:]
                            events.append(("build", line, mtype))
                            built.append(line)
                            if want == "#TableRow":
                                tables[-1][1].append((line, 1 if k == ROW1 else 2))
                            if want == "#DocStringSeparator":
                                state["active"] = None if state["active"] else ('"""' if k == DOCA else "```")
                    state["c"] = s
                    done = True
                    break
                if done:
                    break
            if not done:
                exp = berp.expected_list(cfg, c)
                add_error(("eof" if k is None else "unexpected", line, exp))
        if eof:
            events.append(("end", "GherkinDocument"))
    except Stop as s:
        if stop:
            return dict(events=events, errors=[s.args[0]], accepted=False, built=built, capped=False)
        return dict(events=events, errors=errors, accepted=False, built=built, capped=True, final=None)
    return dict(events=events, errors=errors, accepted=not errors, built=built, capped=False,
                final=(state["c"], state["active"]))


def prefixes(max_len=12):
    """shortest kind sequences leading into every configuration of the grammar automaton
    (breadth-first over the specification, not over the implementation), each also extended
    by one tag line so that the suffix decides which look-ahead branch is taken."""
    from .pdrive import NK
    seen = {("START", None): []}
    frontier = [[]]
    while frontier:
        nxt = []
        for seq in frontier:
            if len(seq) >= max_len:
                continue
            for k in range(NK):
                if k in (TAGBAD, LANGBAD):
                    continue
                r = spec_parse_open(seq + [k])
                if r is None or r in seen:
                    continue
                seen[r] = seq + [k]
                nxt.append(seq + [k])
        frontier = nxt
    out = []
    for key, seq in seen.items():
        out.append((key, seq))
    extra = []
    for key, seq in seen.items():
        if key[1] is None and any(t == "#TagLine" for (t, _, _, _) in CFG[key[0]]):
            extra.append(((key[0], "tag-pending"), seq + [TAG]))
    return out + extra


def spec_parse_open(kinds):
    """configuration reached after `kinds` without reading EOF and without errors (None if an error occurred)"""
    marker = {}
    r = _run(kinds, False, CFG, eof=False)
    if r["errors"]:
        return None
    return r["final"]

