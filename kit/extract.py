"""Table extraction from the generated parsers.

* python/gherkin/parser.py — strict, pattern-directed translation of the Python AST: anything
  that does not fit the rigid shape of the generated code raises `Untranslatable` (never
  silently skipped).  Result: per state an ordered list of guarded transitions
  (match kind, look-ahead id or None, productions, target), the expected-token list and the
  stay state; the two look-ahead definitions; driver parameters (error cap, queue discipline).
* the five sibling generated parsers (Java, Go, Ruby, C, TypeScript) — line-regex extraction
  of the same tables.
"""
import ast
import os
import re

REPO = os.environ.get("VERIF_REPO", "/repo")

KINDS = ["EOF", "Empty", "Comment", "TagLine", "FeatureLine", "RuleLine", "BackgroundLine",
         "ScenarioLine", "ExamplesLine", "StepLine", "DocStringSeparator", "TableRow",
         "Language", "Other"]


class Untranslatable(Exception):
    pass


def _self_call(c):
    if not (isinstance(c, ast.Call) and isinstance(c.func, ast.Attribute)
            and isinstance(c.func.value, ast.Name) and c.func.value.id == "self"):
        raise Untranslatable("expected self.<method>(...) call: " + ast.dump(c)[:200])
    return c.func.attr


def _ctx_token_args(c, what):
    names = [getattr(a, "id", None) for a in c.args]
    if names != ["context", "token"]:
        raise Untranslatable("%s: expected (context, token) arguments, got %s" % (what, names))


def _productions(body, fname):
    prods = []
    if not body or not isinstance(body[-1], ast.Return):
        raise Untranslatable(fname + ": transition body must end with return")
    for b in body[:-1]:
        if not isinstance(b, ast.Expr):
            raise Untranslatable(fname + ": unexpected statement in transition body: " + ast.dump(b)[:200])
        nm = _self_call(b.value)
        if nm in ("start_rule", "end_rule"):
            a = b.value.args
            if len(a) != 2 or getattr(a[0], "id", None) != "context" or not isinstance(a[1], ast.Constant):
                raise Untranslatable(fname + ": bad %s call" % nm)
            prods.append((nm, a[1].value))
        elif nm == "build":
            _ctx_token_args(b.value, fname + " build")
            prods.append(("build",))
        else:
            raise Untranslatable(fname + ": unexpected call %s in transition body" % nm)
    r = body[-1].value
    if not (isinstance(r, ast.Constant) and isinstance(r.value, int)):
        raise Untranslatable(fname + ": non-constant return")
    if [p for p in prods if p == ("build",)] != [("build",)] or prods[-1] != ("build",):
        raise Untranslatable(fname + ": every transition must build the token exactly once, last")
    return prods, r.value


def python_tables(path=None):
    path = path or os.path.join(REPO, "python/gherkin/parser.py")
    src = open(path, encoding="utf8").read()
    tree = ast.parse(src)
    classes = [n for n in tree.body if isinstance(n, ast.ClassDef) and n.name == "Parser"]
    if len(classes) != 1:
        raise Untranslatable("class Parser not found exactly once")
    cls = classes[0]
    fns = {f.name: f for f in cls.body if isinstance(f, ast.FunctionDef)}
    states = {}
    for name, fn in fns.items():
        if not name.startswith("match_token_at_"):
            continue
        n = int(name.rsplit("_", 1)[1])
        trans = []
        i = 0
        body = fn.body
        while i < len(body) and isinstance(body[i], ast.If):
            st = body[i]
            if st.orelse:
                raise Untranslatable(name + ": else branch in transition")
            kind = _self_call(st.test)
            if not kind.startswith("match_") or kind[6:] not in KINDS:
                raise Untranslatable(name + ": unknown guard " + kind)
            _ctx_token_args(st.test, name + " guard")
            b = st.body
            la = None
            if len(b) == 1 and isinstance(b[0], ast.If):
                if b[0].orelse:
                    raise Untranslatable(name + ": else branch in look-ahead guard")
                la = _self_call(b[0].test)
                if la not in ("lookahead_0", "lookahead_1"):
                    raise Untranslatable(name + ": unknown look-ahead " + la)
                _ctx_token_args(b[0].test, name + " look-ahead")
                b = b[0].body
            prods, tgt = _productions(b, name)
            trans.append((kind[6:], la, prods, tgt))
            i += 1
        tail = body[i:]
        # tail shape: state_comment = "..."; token.detach; expected_tokens = [...]; error = A if token.eof() else B;
        #             if self.stop_at_first_error: raise error; self.add_error(context, error); return N
        if len(tail) != 7:
            raise Untranslatable(name + ": unexpected tail length %d" % len(tail))
        a_sc, e_det, a_exp, a_err, if_stop, e_add, ret = tail
        if not (isinstance(a_sc, ast.Assign) and a_sc.targets[0].id == "state_comment" and isinstance(a_sc.value, ast.Constant)):
            raise Untranslatable(name + ": tail[0]")
        if not (isinstance(a_exp, ast.Assign) and a_exp.targets[0].id == "expected_tokens" and isinstance(a_exp.value, ast.List)):
            raise Untranslatable(name + ": tail expected_tokens")
        expected = [e.value for e in a_exp.value.elts]
        ok = (isinstance(a_err, ast.Assign) and isinstance(a_err.value, ast.IfExp)
              and ast.unparse(a_err.value.test) == "token.eof()"
              and ast.unparse(a_err.value.body) == "UnexpectedEOFException(token, expected_tokens, state_comment)"
              and ast.unparse(a_err.value.orelse) == "UnexpectedTokenException(token, expected_tokens, state_comment)")
        if not ok:
            raise Untranslatable(name + ": tail error construction: " + ast.unparse(a_err))
        if not (isinstance(if_stop, ast.If) and ast.unparse(if_stop.test) == "self.stop_at_first_error"
                and len(if_stop.body) == 1 and ast.unparse(if_stop.body[0]) == "raise error" and not if_stop.orelse):
            raise Untranslatable(name + ": tail stop_at_first_error")
        if ast.unparse(e_add) != "self.add_error(context, error)":
            raise Untranslatable(name + ": tail add_error")
        if not (isinstance(ret, ast.Return) and isinstance(ret.value, ast.Constant)):
            raise Untranslatable(name + ": tail return")
        comment = a_sc.value.value
        states[n] = dict(trans=trans, expected=expected, stay=ret.value.value, comment=comment)
    # state_map
    mt = fns.get("match_token")
    if mt is None:
        raise Untranslatable("match_token missing")
    smap = {}
    for node in ast.walk(mt):
        if isinstance(node, ast.Dict):
            for k, v in zip(node.keys, node.values):
                smap[k.value] = v.attr
    for k, v in smap.items():
        if v != "match_token_at_%d" % k:
            raise Untranslatable("state_map[%d] = %s" % (k, v))
    if set(smap) != set(states):
        raise Untranslatable("state_map keys differ from defined states")
    # look-aheads
    las = {}
    for la in ("lookahead_0", "lookahead_1"):
        las[la] = _lookahead(fns[la], la)
    try:
        driver = _driver(fns, cls)
    except Untranslatable as e:
        # the driver half is not translated (Engine X executes it as it is); only record that its shape is not the usual one
        driver = {"unrecognised_shape": str(e)[:300]}
    # match_X wrappers
    wrappers = {}
    for k in KINDS:
        f = fns.get("match_" + k)
        if f is None:
            raise Untranslatable("wrapper match_%s missing" % k)
        srcs = [ast.unparse(s) for s in f.body]
        eof_guard = srcs[:-1] == ["if token.eof():\n    return False"]
        if not (srcs[-1] == "return self.handle_external_error(context, False, token, context.token_matcher.match_%s)" % k
                and (eof_guard or len(srcs) == 1)):
            raise Untranslatable("wrapper match_%s has unexpected body: %s" % (k, srcs))
        wrappers[k] = {"eof_guard": eof_guard}
    return dict(states=states, lookaheads=las, driver=driver, wrappers=wrappers)


def _lookahead(fn, name):
    """shape: currentToken.detach; token=None; queue=[]; match=False; while True: ...; context.token_queue.<op>(queue); return match"""
    src = [ast.unparse(s) for s in fn.body]
    if src[:4] != ["currentToken.detach", "token = None", "queue = []", "match = False"]:
        raise Untranslatable(name + ": prologue " + repr(src[:4]))
    loop = fn.body[4]
    if not (isinstance(loop, ast.While) and ast.unparse(loop.test) == "True"):
        raise Untranslatable(name + ": loop")
    lb = loop.body
    lsrc = [ast.unparse(s) for s in lb]
    if lsrc[:3] != ["token = self.read_token(context)", "token.detach", "queue.append(token)"]:
        raise Untranslatable(name + ": loop head " + repr(lsrc[:3]))
    if len(lb) != 5:
        raise Untranslatable(name + ": loop length")
    exp_if, skip_if = lb[3], lb[4]

    def kinds_of(test):
        out = []
        for c in ast.walk(test):
            if isinstance(c, ast.Call):
                nm = _self_call(c)
                _ctx_token_args(c, name)
                out.append(nm[6:])
        return out

    if not (isinstance(exp_if, ast.If) and [ast.unparse(s) for s in exp_if.body] == ["match = True", "break"] and not exp_if.orelse):
        raise Untranslatable(name + ": expected-branch")
    if not (isinstance(exp_if.test, ast.BoolOp) and isinstance(exp_if.test.op, ast.Or)):
        raise Untranslatable(name + ": expected-test")
    expected = kinds_of(exp_if.test)
    if not (isinstance(skip_if, ast.If) and isinstance(skip_if.test, ast.UnaryOp) and isinstance(skip_if.test.op, ast.Not)
            and [ast.unparse(s) for s in skip_if.body] == ["break"] and not skip_if.orelse):
        raise Untranslatable(name + ": skip-branch")
    skip = kinds_of(skip_if.test.operand)
    requeue = ast.unparse(fn.body[5])
    m = re.fullmatch(r"context\.token_queue\.(\w+)\(queue\)", requeue)
    if not m:
        raise Untranslatable(name + ": requeue statement " + requeue)
    if ast.unparse(fn.body[6]) != "return match" or len(fn.body) != 7:
        raise Untranslatable(name + ": epilogue")
    return dict(expected=expected, skip=skip, requeue=m.group(1))


def _driver(fns, cls):
    d = {}
    # add_error: dedupe by str, cap
    src = ast.unparse(fns["add_error"])
    m = re.search(r"if str\(error\) not in \(str\(e\) for e in context\.errors\):\n\s+context\.errors\.append\(error\)\n\s+if len\(context\.errors\) > (\d+):\n\s+raise CompositeParserException\(context\.errors\)", src)
    if not m:
        raise Untranslatable("add_error shape: " + src)
    d["cap_gt"] = int(m.group(1))
    src = ast.unparse(fns["read_token"])
    if "if context.token_queue:\n        return context.token_queue.popleft()\n    else:\n        return context.token_scanner.read()" not in src:
        raise Untranslatable("read_token shape: " + src)
    d["read"] = "popleft"
    src = ast.unparse(fns["handle_external_error"])
    want = ("if self.stop_at_first_error:\n        return action(argument)\n    try:\n        return action(argument)\n"
            "    except CompositeParserException as e:\n        for error in e.errors:\n            self.add_error(context, error)\n"
            "    except ParserException as e:\n        self.add_error(context, e)\n    return default_value")
    if want not in src:
        raise Untranslatable("handle_external_error shape: " + src)
    src = ast.unparse(fns["parse"])
    for piece in ("self.ast_builder.reset()", "token_matcher.reset()", "ParserContext(token_scanner, token_matcher, deque(), [])",
                  "self.start_rule(context, 'GherkinDocument')", "state = 0",
                  "while True:\n        token = self.read_token(context)\n        state = self.match_token(state, token, context)\n        if token.eof():\n            break",
                  "self.end_rule(context, 'GherkinDocument')",
                  "if context.errors:\n        raise CompositeParserException(context.errors)",
                  "return cast(GherkinDocument, self.get_result())"):
        if piece not in src:
            raise Untranslatable("parse(): missing piece %r in\n%s" % (piece, src))
    d["parse_ok"] = True
    return d


# ------------------------------------------------------------------ siblings

SIBLINGS = {
    "java": ("java/src/main/java/io/cucumber/gherkin/Parser.java", r"^\s*private int matchTokenAt_(\d+)\("),
    "go": ("go/parser.go", r"^func \(ctxt \*parseContext\) matchAt(\d+)\("),
    "ruby": ("ruby/lib/gherkin/parser.rb", r"^\s*def match_token_at_state(\d+)\("),
    "c": ("c/src/parser.c", r"^static int match_token_at_(\d+)\(Token"),
    "javascript": ("javascript/src/Parser.ts", r"^\s*private matchTokenAt_(\d+)\("),
}


def sibling_tables(lang):
    rel, fn_re = SIBLINGS[lang]
    lines = open(os.path.join(REPO, rel), encoding="utf8").read().splitlines()
    fn_re = re.compile(fn_re)
    states = {}
    cur = None
    trans = None
    pending = None  # [kind, la, prods]
    guard_re = re.compile(r"\bif\b.*?\bmatch_?([A-Z]\w+)\(")
    la_re = re.compile(r"\bif\b.*?\blookahead_?(\d)\(")
    start_re = re.compile(r"\bstart_?[rR]ule\((?:context, ?)?(?:RuleType\.?|Rule_|:)?(\w+)\)")
    end_named_re = re.compile(r"\bend_?[rR]ule\((?:context, ?)?(?:RuleType\.?|Rule_|:)(\w+)\)")
    end_re = re.compile(r"\bend_?[rR]ule\(")
    build_re = re.compile(r"\bbuild\(")
    ret_re = re.compile(r"\breturn (\d+)")
    other_fn = re.compile(r"^\s*(private|func|def|static)\b.*\(")

    def flush():
        nonlocal cur, trans
        if cur is not None:
            states[cur]["trans"] = trans
        cur = None

    for ln in lines:
        m = fn_re.search(ln)
        if m:
            flush()
            cur = int(m.group(1))
            trans = []
            pending = None
            states[cur] = dict(trans=None, expected=None, stay=None)
            continue
        if cur is None:
            continue
        if other_fn.search(ln) and not fn_re.search(ln) and "match" not in ln.split("(")[0].lower():
            flush()
            continue
        if "xpected" in ln and '"#' in ln and states[cur]["expected"] is None:
            states[cur]["expected"] = re.findall(r'#\w+', ln.split("xpected", 1)[1])
            pending = None
            continue
        g = guard_re.search(ln)
        if g and "lookahead" not in ln.lower():
            pending = [g.group(1), None, []]
            continue
        l = la_re.search(ln)
        if l and pending is not None:
            pending[1] = "lookahead_" + l.group(1)
            continue
        if pending is not None:
            s = start_re.search(ln)
            if s:
                pending[2].append(("start_rule", s.group(1)))
                continue
            e = end_named_re.search(ln)
            if e:
                pending[2].append(("end_rule", e.group(1)))
                continue
            if end_re.search(ln):
                pending[2].append(("end_rule", None))
                continue
            if build_re.search(ln):
                pending[2].append(("build",))
                continue
            r = ret_re.search(ln)
            if r:
                trans.append((pending[0], pending[1], pending[2], int(r.group(1))))
                pending = None
                continue
        else:
            r = ret_re.search(ln)
            if r and states[cur]["expected"] is not None and states[cur]["stay"] is None:
                states[cur]["stay"] = int(r.group(1))
    flush()
    return states


if __name__ == "__main__":
    t = python_tables()
    print(len(t["states"]), sum(len(s["trans"]) for s in t["states"].values()), t["lookaheads"], t["driver"])
    for lang in SIBLINGS:
        s = sibling_tables(lang)
        nt = sum(len(v["trans"]) for v in s.values())
        diffs = 0
        for n, st in t["states"].items():
            if n not in s:
                diffs += 1
                continue
            a = [(k, la, [(p[0], p[1]) if len(p) > 1 else p for p in pr], tg) for k, la, pr, tg in st["trans"]]
            b = s[n]["trans"]
            same = len(a) == len(b) and all(
                x[0] == y[0] and x[1] == y[1] and x[3] == y[3] and len(x[2]) == len(y[2]) and
                all(p[0] == q[0] and (len(q) == 1 or q[1] is None or p[1] == q[1]) for p, q in zip(x[2], y[2]))
                for x, y in zip(a, b))
            if not same or st["expected"] != s[n]["expected"] or st["stay"] != s[n]["stay"]:
                diffs += 1
                if diffs < 3:
                    print(lang, n, a[:2], b[:2], st["expected"], s[n]["expected"], st["stay"], s[n]["stay"])
        print(lang, len(s), nt, "diffs", diffs)


def sibling_lookaheads(lang):
    """{'lookahead_0': {'expected': [...], 'skip': [...]}, ...} from a sibling generated parser (line-regex extraction)"""
    rel, _ = SIBLINGS[lang]
    lines = open(os.path.join(REPO, rel), encoding="utf8").read().splitlines()
    kind_re = re.compile(r"(?:isM|m)atch_?([A-Z][A-Za-z]+)\(")
    def_re = re.compile(r"^\s*(?:func .*|def |private .*|static bool )\s*lookahead_?(\d)\(")
    out = {}
    i = 0
    while i < len(lines):
        m = def_re.search(lines[i])
        if not m:
            i += 1
            continue
        name = "lookahead_" + m.group(1)
        exp, skip = [], []
        phase = 0
        j = i + 1
        while j < len(lines):
            ln = lines[j]
            if def_re.search(ln):
                break
            ks = kind_re.findall(ln)
            if phase == 0:
                exp += ks
            else:
                skip += ks
            if re.search(r"match\s*=\s*(true|1)\b", ln):
                phase = 1
            if re.search(r"return\s+match", ln):
                break
            j += 1
        out[name] = {"expected": exp, "skip": skip}
        i = j
    return out
