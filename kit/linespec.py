"""Reference semantics of ONE source line, written from the property statements (C03, C04, C05,
C12, C13, C14, C16) and the README; index based, shares no code with gherkin_line.py /
token_matcher.py.  `expect(kind, line, st)` says what `TokenMatcher.match_<kind>` must do.

Result: None (must return False), ("raise", class, line, column) or a dict of token fields:
  type, indent, column, text, keyword, keyword_type, items [(column, text)], and for matchers
  that change matcher state: active', indent_to_remove'.
"""
import json
import os

REPO = os.environ.get("VERIF_REPO", "/repo")
_MASTER = None


def master_table():
    """the repository's MASTER language table (the implementation reads its own shipped copy)"""
    global _MASTER
    if _MASTER is None:
        with open(os.path.join(REPO, "gherkin-languages.json"), encoding="utf-8") as f:
            _MASTER = json.load(f)
    return _MASTER


master_table()  # load now (at import, outside symbolic tracing: json is a C boundary)


def is_blank(ch):
    return ch.isspace() and ch != "\n"


def lstrip_len(s):
    i = 0
    while i < len(s) and s[i].isspace():
        i += 1
    return i


def rstrip_ws(s):
    e = len(s)
    while e > 0 and s[e - 1].isspace():
        e -= 1
    return s[:e]


def strip_eol(s):
    """trailing carriage returns / line feeds are not part of any reported text"""
    e = len(s)
    while e > 0 and (s[e - 1] == "\r" or s[e - 1] == "\n"):
        e -= 1
    return s[:e]


def trim(s):
    a = lstrip_len(s)
    return rstrip_ws(s[a:])


class State:
    """matcher state.  `history` (optional) is a list of operations applied to a fresh matcher whose configured
    default dialect is `default`: ("lang", name) = a '# language: name' header was matched, ("reset",) = a new
    parse was started.  The dialect in force follows from the statement of C05/C15: the default, unless a header
    switched it since the last reset."""

    def __init__(self, dialect="en", active=None, indent_to_remove=0, default=None, history=None):
        self.default = default if default is not None else dialect
        self.history = list(history or [])
        d = self.default
        for op in self.history:
            if op[0] == "lang":
                d = op[1]
            elif op[0] == "reset":
                d = self.default
        self.dialect = d if self.history else dialect
        self.active = active
        self.indent_to_remove = indent_to_remove


TITLE_CATS = {
    "FeatureLine": ["feature"], "RuleLine": ["rule"], "BackgroundLine": ["background"],
    "ScenarioLine": ["scenario", "scenarioOutline"], "ExamplesLine": ["examples"],
}
STEP_CATS = ["given", "when", "then", "and", "but"]
CAT_TYPE = {"given": "Context", "when": "Action", "then": "Outcome", "and": "Conjunction", "but": "Conjunction"}


def step_keyword_type(spec, kw):
    types = []
    for cat in STEP_CATS:
        for k in spec[cat]:
            if k == kw:
                types.append(CAT_TYPE[cat])
    return types[0] if len(types) == 1 else "Unknown"


def split_cells(row):
    out = []
    i = 0
    n = len(row)
    cell = ""
    first = True
    start = 1
    while i < n:
        c = row[i]
        if c == "|":
            if first:
                first = False
            else:
                out.append((cell, start))
            cell = ""
            start = i + 2
            i += 1
        elif c == "\\":
            if i + 1 < n:
                d = row[i + 1]
                if d == "n":
                    cell += "\n"
                elif d == "|" or d == "\\":
                    cell += d
                else:
                    cell += "\\" + d
                i += 2
            else:
                cell += "\\"
                i += 1
        else:
            cell += c
            i += 1
    return out


def cells(line):
    indent = lstrip_len(line)
    body = rstrip_ws(line[indent:])
    out = []
    for cell, start in split_cells(body):
        a = 0
        b = len(cell)
        while a < b and is_blank(cell[a]):
            a += 1
        while b > a and is_blank(cell[b - 1]):
            b -= 1
        out.append((indent + start + a, cell[a:b]))
    return out


def tags(line, line_no=1):
    """tags of a tag line: ('ok', [(column, '@name')]) or ('raise', line_no, column).
    A comment may follow the tags (white space then '#').  Each tag is '@' + the text up to the next
    '@', with surrounding white space removed; white space left inside a tag is an error at that tag."""
    indent = lstrip_len(line)
    body = rstrip_ws(line[indent:])
    # cut the trailing comment: first white-space character that is followed by '#'
    cut = len(body)
    for i in range(len(body) - 1):
        if body[i].isspace() and body[i + 1] == "#":
            cut = i
            break
    body = rstrip_ws(body[:cut])
    out = []
    i = 0
    n = len(body)
    # text before the first '@' belongs to no tag
    while i < n and body[i] != "@":
        i += 1
    while i < n:
        j = i + 1
        while j < n and body[j] != "@":
            j += 1
        name = trim(body[i + 1:j])
        col = indent + i + 1
        for ch in name:
            if ch.isspace():
                return ("raise", line_no, col)
        out.append((col, "@" + name))
        i = j
    return ("ok", out)


def _language_header(t):
    """'# language: xx' header: optional blanks, '#', blanks, 'language', blanks, ':', blanks, name of
    letters / '-' / '_', blanks, end (a final line feed is tolerated)."""
    i = lstrip_len(t)
    n = len(t)
    if i >= n or t[i] != "#":
        return None
    i += 1
    while i < n and t[i].isspace():
        i += 1
    if t[i:i + 8] != "language":
        return None
    i += 8
    while i < n and t[i].isspace():
        i += 1
    if i >= n or t[i] != ":":
        return None
    i += 1
    while i < n and t[i].isspace():
        i += 1
    j = i
    while j < n and (("a" <= t[j] <= "z") or ("A" <= t[j] <= "Z") or t[j] == "-" or t[j] == "_"):
        j += 1
    if j == i:
        return None
    name = t[i:j]
    while j < n and t[j].isspace():
        j += 1
    if j != n:
        return None
    return name


def expect(kind, line, st, line_no=1, table=None):
    table = table or master_table()
    spec = table[st.dialect]
    indent = lstrip_len(line)
    t = line[indent:]
    base = {"type": kind, "indent": indent, "column": indent + 1, "text": None, "keyword": None,
            "keyword_type": None, "items": [], "dialect": st.dialect}
    if kind == "Empty":
        if t != "":
            return None
        base.update(indent=0, column=1)
        return base
    if kind == "Comment":
        if not t.startswith("#"):
            return None
        base.update(indent=0, column=1, text=strip_eol(line))
        return base
    if kind == "TagLine":
        if not t.startswith("@"):
            return None
        r = tags(line, line_no)
        if r[0] == "raise":
            return ("raise", "ParserException", r[1], r[2])
        base.update(items=r[1])
        return base
    if kind in TITLE_CATS:
        for cat in TITLE_CATS[kind]:
            for kw in spec[cat]:
                if t.startswith(kw + ":"):
                    base.update(keyword=kw, text=strip_eol(trim(t[len(kw) + 1:])))
                    return base
        return None
    if kind == "StepLine":
        for cat in STEP_CATS:
            for kw in spec[cat]:
                if t.startswith(kw):
                    base.update(keyword=kw, text=strip_eol(trim(t[len(kw):])), keyword_type=step_keyword_type(spec, kw))
                    return base
        return None
    if kind == "TableRow":
        if not t.startswith("|"):
            return None
        base.update(items=cells(line))
        return base
    if kind == "DocStringSeparator":
        if st.active is None:
            for sep in ('"""', "```"):
                if t.startswith(sep):
                    base.update(keyword=sep, text=strip_eol(trim(t[3:])), active2=sep, itr2=indent)
                    return base
            return None
        if t.startswith(st.active):
            base.update(keyword=st.active, text=None, active2=None, itr2=0)
            return base
        return None
    if kind == "Language":
        name = _language_header(t)
        if name is None:
            return None
        if name not in table:
            return ("raise", "NoSuchLanguageException", line_no, indent + 1)
        base.update(text=name, dialect=st.dialect, dialect2=name)
        return base
    if kind == "Other":
        itr = st.indent_to_remove
        if itr < 0 or itr > indent:
            text = t
        else:
            text = line[itr:]
        if st.active == '"""':
            text = text.replace('\\"\\"\\"', '"""')
        elif st.active == "```":
            text = text.replace("\\`\\`\\`", "```")
        base.update(indent=0, column=1, text=strip_eol(text))
        return base
    raise ValueError(kind)
