"""A family of Gherkin ASTs of the shape the parser returns, built from small integer shape
parameters (concrete or symbolic), and a reference pickle compiler written from the
statements of C06-C11 (it shares no code with gherkin/pickles/compiler.py).
"""

KT = ["Context", "Action", "Outcome", "Conjunction", "Unknown"]


class Gen:
    def __init__(self, start=0):
        self.n = start
        self.index = {}   # id -> (kind, node)

    def id(self, kind, node=None):
        i = str(self.n)
        self.n += 1
        self.index[i] = kind
        return i


def loc(line, col=1):
    return {"line": line, "column": col}


def mk_tags(g, names, line):
    return [{"id": g.id("tag"), "location": loc(line, 1 + 3 * i), "name": n} for i, n in enumerate(names)]


def mk_row(g, values, line):
    cells = [{"location": loc(line, 3 + 4 * i), "value": v} for i, v in enumerate(values)]
    return {"id": g.id("row"), "location": loc(line, 1), "cells": cells}


def mk_step(g, kt, text, line, arg=0, argtexts=("c1", "c2", "doc", "mt")):
    """arg: 0 none, 1 data table (2 rows x 1 cell... ), 2 doc string with media type, 3 doc string without, 4 empty doc string"""
    st = {"location": loc(line, 5), "keyword": "K ", "keywordType": kt, "text": text}
    if arg == 1:
        rows = [mk_row(g, [argtexts[0], argtexts[1]], line + 1), mk_row(g, [argtexts[1], ""], line + 2)]
        st["dataTable"] = {"location": rows[0]["location"], "rows": rows}
    elif arg == 2:
        st["docString"] = {"location": loc(line + 1, 7), "content": argtexts[2], "delimiter": '"""', "mediaType": argtexts[3]}
    elif arg == 3:
        st["docString"] = {"location": loc(line + 1, 7), "content": argtexts[2], "delimiter": "```"}
    elif arg == 4:
        st["docString"] = {"location": loc(line + 1, 7), "content": "", "delimiter": '"""'}
    st["id"] = g.id("step")
    # key order as the AST builder produces it
    return {k: st[k] for k in ["id", "location", "keyword", "keywordType", "text"] + [k for k in ("dataTable", "docString") if k in st]}


def mk_background(g, steps, line):
    return {"background": {"id": None, "location": loc(line, 3), "keyword": "Background", "name": "", "description": "", "steps": steps}}


def finish_background(g, bg):
    bg["background"]["id"] = g.id("background")
    return bg


def mk_examples(g, kind, tagnames, header, rows, line, name=""):
    """kind: 1 no table, 2 header only, 3.. header + rows"""
    ex = {"tags": None, "location": loc(line, 5), "keyword": "Examples", "name": name, "description": ""}
    hdr = None
    body = []
    if kind >= 2:
        hdr = mk_row(g, header, line + 1)
        body = [mk_row(g, r, line + 2 + i) for i, r in enumerate(rows)]
    tags = mk_tags(g, tagnames, line - 1)
    out = {"id": g.id("examples"), "tags": tags, "location": ex["location"], "keyword": "Examples", "name": name,
           "description": ""}
    if hdr is not None:
        out["tableHeader"] = hdr
    out["tableBody"] = body
    return out


def mk_scenario(g, name, tagnames, steps, examples, line, keyword="Scenario"):
    # canonical id order: steps (already built by the caller), examples (already built), tags, then the scenario
    tags = mk_tags(g, tagnames, line - 1)
    return {"scenario": {"id": g.id("scenario"), "tags": tags, "location": loc(line, 3), "keyword": keyword, "name": name,
                         "description": "", "steps": steps, "examples": examples}}


def mk_rule(g, name, tagnames, children, line):
    tags = mk_tags(g, tagnames, line - 1)
    return {"rule": {"id": g.id("rule"), "tags": tags, "location": loc(line, 3), "keyword": "Rule", "name": name,
                     "description": "", "children": children}}


def mk_doc(g, ftagnames, children, uri="u.feature", language="en", name="f"):
    tags = mk_tags(g, ftagnames, 1)
    return {"feature": {"tags": tags, "location": loc(2, 1), "language": language, "keyword": "Feature", "name": name,
                        "description": "", "children": children}, "comments": [], "uri": uri}


# ------------------------------------------------------------------ reference compiler (from the statements)

def ref_interpolate(text, headers, values):
    """C09: each '<h>' replaced literally by the row's value, columns applied in header order"""
    for h, v in zip(headers, values):
        text = text.replace("<" + h + ">", v)
    return text


def ref_argument(step, headers, values):
    if "dataTable" in step:
        return {"dataTable": {"rows": [{"cells": [{"value": ref_interpolate(c["value"], headers, values)} for c in r["cells"]]}
                                       for r in step["dataTable"]["rows"]]}}
    if "docString" in step:
        d = {"content": ref_interpolate(step["docString"]["content"], headers, values)}
        if "mediaType" in step["docString"]:
            d["mediaType"] = ref_interpolate(step["docString"]["mediaType"], headers, values)
        return {"docString": d}
    return None


def ref_compile(doc, start_id=0):
    counter = [start_id]

    def nid():
        counter[0] += 1
        return str(counter[0] - 1)

    pickles = []
    f = doc.get("feature")
    if not f:
        return pickles
    uri = doc["uri"]
    lang = f["language"]

    def emit(scn, tags, bgsteps):
        def steps_for(headers, values, row_id):
            out = []
            if not scn["steps"]:
                return out
            last = "Unknown"
            for st in bgsteps:
                if st["keywordType"] != "Conjunction":
                    last = st["keywordType"]
                ps = {"astNodeIds": [st["id"]], "id": nid(), "type": last, "text": st["text"]}
                a = ref_argument(st, [], [])
                if a is not None:
                    ps["argument"] = a
                out.append(ps)
            for st in scn["steps"]:
                if st["keywordType"] != "Conjunction":
                    last = st["keywordType"]
                ids = [st["id"]] + ([row_id] if row_id is not None else [])
                ps = {"astNodeIds": ids, "id": nid(), "type": last, "text": ref_interpolate(st["text"], headers, values)}
                a = ref_argument(st, headers, values)
                if a is not None:
                    ps["argument"] = a
                out.append(ps)
            return out

        if not scn["examples"]:
            steps = steps_for([], [], None)
            pickles.append({"astNodeIds": [scn["id"]], "id": nid(), "tags": [{"astNodeId": t["id"], "name": t["name"]} for t in tags + scn["tags"]],
                            "name": scn["name"], "language": lang, "steps": steps, "uri": uri})
            return
        for ex in scn["examples"]:
            if "tableHeader" not in ex:
                continue
            headers = [c["value"] for c in ex["tableHeader"]["cells"]]
            for row in ex["tableBody"]:
                values = [c["value"] for c in row["cells"]]
                steps = steps_for(headers, values, row["id"])
                alltags = tags + scn["tags"] + ex["tags"]
                pickles.append({"astNodeIds": [scn["id"], row["id"]], "id": nid(),
                                "tags": [{"astNodeId": t["id"], "name": t["name"]} for t in alltags],
                                "name": ref_interpolate(scn["name"], headers, values), "language": lang, "steps": steps, "uri": uri})

    fbg = []
    for ch in f["children"]:
        if "background" in ch:
            fbg = fbg + list(ch["background"]["steps"])
        elif "scenario" in ch:
            emit(ch["scenario"], list(f["tags"]), fbg)
        else:
            rule = ch["rule"]
            rtags = list(f["tags"]) + list(rule["tags"])
            rbg = list(fbg)
            for rc in rule["children"]:
                if "background" in rc:
                    rbg = rbg + list(rc["background"]["steps"])
                else:
                    emit(rc["scenario"], rtags, rbg)
    return pickles


def same(a, b):
    """structural equality that also compares dict key sets (absent optional fields must be absent)"""
    if isinstance(a, dict) and isinstance(b, dict):
        if list(a.keys()) != list(b.keys()) and sorted(a.keys()) != sorted(b.keys()):
            return False
        for k in a:
            if not same(a[k], b[k]):
                return False
        return True
    if isinstance(a, list) and isinstance(b, list):
        if len(a) != len(b):
            return False
        for x, y in zip(a, b):
            if not same(x, y):
                return False
        return True
    if type(a) is not type(b) and not (isinstance(a, str) and isinstance(b, str)):
        return False
    return a == b
