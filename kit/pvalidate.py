"""Translation validation for Engine P: walk the extracted tables (breadth first) to get one shortest
kind sequence into every state and across every transition, run the REAL Parser on it (stub matcher,
recording builder) and compare the builder events and final outcome with the table-level prediction."""
import json
import sys

from . import extract, pdrive
from .pdrive import (EMPTY, COMMENT, TAG, FEATURE, RULE, BACKGROUND, SCENARIO, EXAMPLES, STEP, DOCA, ROW1, LANGUAGE, OTHER)

K2ABS = {"Empty": EMPTY, "Comment": COMMENT, "TagLine": TAG, "FeatureLine": FEATURE, "RuleLine": RULE,
         "BackgroundLine": BACKGROUND, "ScenarioLine": SCENARIO, "ExamplesLine": EXAMPLES, "StepLine": STEP,
         "DocStringSeparator": DOCA, "TableRow": ROW1, "Language": LANGUAGE, "Other": OTHER}


def predict(T, kinds, eof=True):
    """table-level run with declarative look-ahead (skip/expected sets from the extracted look-ahead bodies)"""
    states = T["states"]
    las = T["lookaheads"]
    s = 0
    ev = []
    n = len(kinds)
    errs = 0
    traj = []
    used = []
    for i in range(n + 1 if eof else n):
        k = kinds[i] if i < n else "EOF"
        true = {k} | ({"Comment"} if k == "Language" else set()) | ({"Other"} if k != "EOF" else set())
        took = False
        for ti, (mk, la, prods, tgt) in enumerate(states[s]["trans"]):
            if mk not in true:
                continue
            if la is not None:
                d = las[la]
                j = i + 1
                ok = False
                while True:
                    kj = kinds[j] if j < n else "EOF"
                    tj = {kj} | ({"Comment"} if kj == "Language" else set())
                    if tj & set(d["expected"]):
                        ok = True
                        break
                    if not (tj & set(d["skip"])):
                        break
                    j += 1
                if not ok:
                    continue
            for p in prods:
                ev.append(("start", p[1]) if p[0] == "start_rule" else ("end", p[1]) if p[0] == "end_rule" else ("build", i + 1, mk))
            used.append((s, ti))
            s = tgt
            took = True
            break
        if not took:
            errs += 1
        traj.append(s)
    return ev, s, errs, traj, used


def paths_to_states(T):
    """BFS over kind sequences; a sequence is kept when, under one of three continuations (none, a scenario
    line, an examples line - they decide the look-ahead branches), it ends in a not yet seen state"""
    COMPL = ([], ["ScenarioLine"], ["ExamplesLine"])
    seen = {}
    frontier = [[]]
    seen[(0, 0)] = []
    allk = [k for k in extract.KINDS if k != "EOF"]
    while frontier:
        nxt = []
        for seq in frontier:
            if len(seq) > 9:
                continue
            for mk in allk:
                cand = seq + [mk]
                keep = False
                for ci, c in enumerate(COMPL):
                    ev, end, errs, traj, used = predict(T, cand + c, eof=False)
                    if errs:
                        continue
                    st = traj[len(cand) - 1]
                    if (st, ci) not in seen:
                        seen[(st, ci)] = cand
                        keep = True
                if keep:
                    nxt.append(cand)
        frontier = nxt
    return seen


def main():
    from gherkin.parser import Parser
    from gherkin.errors import CompositeParserException
    T = extract.python_tables()
    states = T["states"]
    seen = paths_to_states(T)
    COMPL = ([], ["ScenarioLine"], ["ExamplesLine"])
    allk = [k for k in extract.KINDS if k != "EOF"]
    traces = []
    for (st, ci), seq in seen.items():
        for mk in allk + [None]:
            for c in COMPL:
                traces.append(seq + ([mk] if mk else []) + c)
                traces.append(seq + ([mk] if mk else []) + ["Comment", "TagLine", "Empty"] + c)
    uniq = []
    seen_t = set()
    for t in traces:
        if tuple(t) not in seen_t:
            seen_t.add(tuple(t))
            uniq.append(t)
    traces = uniq
    covered = set()
    states_cov = set()
    bad = []
    n = 0
    for seq in traces:
        n += 1
        ev, end, errs, traj, used = predict(T, seq)
        covered.update(used)
        states_cov.update(traj)
        b = pdrive.RecBuilder()
        p = Parser(b)
        try:
            p.parse(pdrive.KScanner([K2ABS[k] for k in seq]), pdrive.KMatcher())
            rejected = False
        except CompositeParserException as e:
            rejected = True
        real = [e for e in b.events if e[1] != "GherkinDocument"]
        # DocStringSeparator kinds: the predicted event names the match kind; the real one the matched type
        if real != ev or rejected != (errs > 0):
            bad.append({"kinds": seq, "predicted": ev[-6:], "real": real[-6:], "rejected": rejected, "pred_errors": errs})
    ntrans = sum(len(st["trans"]) for st in states.values())
    out = {"traces": n, "states_reached": len(states_cov - {34}), "states": len(states), "transitions_exercised": len(covered),
           "transitions": ntrans, "disagreements": len(bad), "examples": bad[:3]}
    sys.stdout.write("PVALIDATE " + json.dumps(out) + "\n")


if __name__ == "__main__":
    main()
