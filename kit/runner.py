"""Condition fan-out, verdict classification, replay, known findings, evidence.

A *condition* is one CrossHair analysis (one harness function under one concrete parameter
set) run in its own process.  Verdicts:

  confirmed        CrossHair exhausted every path ("Confirmed over all paths")
  counterexample   CrossHair produced concrete arguments; they are replayed on the real,
                   unpatched modules under /venv/bin/python (no shim, no CrossHair):
                     reproduced      -> violation (or known finding)
                     not reproduced  -> engine fault, harness error (exit 2)
  not_exhausted    time budget ended before all paths were explored, no counterexample
                   (reported; the claim for that condition is "no violation on N paths")
  vacuous          precondition never met / declared reach tag not hit -> harness error
  error            worker crashed -> harness error
"""
import ast
import concurrent.futures as cf
import hashlib
import json
import os
import subprocess
import sys
import time

VERIF = os.path.dirname(os.path.dirname(os.path.abspath(__file__)))
REPO = os.environ.get("VERIF_REPO", "/repo")
PY_SYM = os.environ.get("VERIF_PY_SYM", "/opt/veriftools/pyvenv/bin/python")
PY_REAL = os.environ.get("VERIF_PY_REAL", "/venv/bin/python")
NPROC = int(os.environ.get("VERIF_JOBS", str(os.cpu_count() or 4)))


class Cond:
    def __init__(self, module, function, params=None, T=60, P=None, expect="confirm",
                 reach=(), label=None, group=None):
        self.module = module
        self.function = function
        self.params = params or {}
        self.T = T
        self.P = P if P is not None else max(10.0, T / 2.0)
        self.expect = expect  # "confirm" | "cex" (false twin / reachability twin)
        self.reach = list(reach)
        self.label = label or ("%s.%s%s" % (module.split(".")[-1], function,
                                           ("[" + ",".join("%s=%s" % kv for kv in sorted(self.params.items())) + "]") if self.params else ""))
        self.group = group or function
        self.result = None

    def env(self, symbolic):
        e = dict(os.environ)
        e["PYTHONPATH"] = VERIF + ":" + REPO + "/python"
        e["VERIF_PARAMS"] = json.dumps(self.params, sort_keys=True)
        e["VERIF_REPO"] = REPO
        e["PYTHONHASHSEED"] = "0"
        e.pop("VERIF_SYMBOLIC", None)
        if symbolic:
            e["VERIF_SYMBOLIC"] = "1"
        return e


def _run_worker(c):
    t0 = time.time()
    wall = c.T * 3 + 90
    try:
        p = subprocess.run(
            [PY_SYM, "-m", "kit.xworker", c.module, c.function, str(c.T), str(c.P)],
            cwd=VERIF, env=c.env(True), capture_output=True, text=True, timeout=wall,
        )
        out = p.stdout
        res = None
        for line in out.splitlines():
            if line.startswith("XWORKER-RESULT "):
                res = json.loads(line[len("XWORKER-RESULT "):])
        if res is None:
            res = {"state": "HARNESS_ERROR", "message": "worker gave no result (rc=%s): %s" % (p.returncode, (p.stderr or "")[-800:])}
    except subprocess.TimeoutExpired:
        res = {"state": "CANNOT_CONFIRM", "message": "outer wall timeout %ss" % wall, "paths": 0}
    res["elapsed"] = time.time() - t0
    return res


def extract_call(message, fn_name):
    """'... when calling f(a, b) (which returns X)' -> 'f(a, b)' (first prefix that parses)."""
    key = "when calling "
    i = message.find(key)
    if i < 0:
        return None
    text = message[i + len(key):]
    for j, ch in enumerate(text):
        if ch == ")":
            cand = text[: j + 1]
            try:
                node = ast.parse(cand, mode="eval").body
            except SyntaxError:
                continue
            if isinstance(node, ast.Call) and getattr(node.func, "id", None) == fn_name:
                return cand
    return None


def replay(module, call, params):
    """Run the counterexample on the real modules (no CrossHair, no shim)."""
    e = dict(os.environ)
    e["PYTHONPATH"] = VERIF + ":" + REPO + "/python"
    e["VERIF_PARAMS"] = json.dumps(params, sort_keys=True)
    e["VERIF_REPO"] = REPO
    e.pop("VERIF_SYMBOLIC", None)
    try:
        p = subprocess.run([PY_REAL, "-m", "kit.replay", module, call], cwd=VERIF, env=e,
                           capture_output=True, text=True, timeout=300)
    except subprocess.TimeoutExpired:
        return {"outcome": "timeout"}
    for line in p.stdout.splitlines():
        if line.startswith("REPLAY-RESULT "):
            return json.loads(line[len("REPLAY-RESULT "):])
    return {"outcome": "error", "detail": (p.stderr or p.stdout)[-800:]}


def classify(c, res):
    st = res.get("state")
    v = {"label": c.label, "module": c.module, "function": c.function, "params": c.params,
         "paths": res.get("paths", 0), "cpu_s": round(res.get("cpu_s", 0.0), 2),
         "state": st, "expect": c.expect}
    if st == "CONFIRMED":
        missing = [t for t in c.reach if t not in res.get("reached", [])]
        if missing:
            v.update(verdict="vacuous", detail="reach tags not hit: %s" % missing)
        else:
            v.update(verdict="confirmed")
    elif st == "CANNOT_CONFIRM":
        v.update(verdict="not_exhausted", detail=res.get("message"))
    elif st in ("POST_FAIL", "EXEC_ERR", "POST_ERR"):
        call = extract_call(res.get("message", ""), c.function)
        v.update(message=res.get("message", "")[:600])
        if call is None:
            v.update(verdict="error", detail="cannot extract call from: " + res.get("message", "")[:300] + " | " + res.get("tb", "")[-600:])
        else:
            r = replay(c.module, call, c.params)
            v.update(call=call, replay=r)
            if r.get("outcome") == "violated":
                v.update(verdict="counterexample")
            elif r.get("outcome") == "holds":
                v.update(verdict="spurious", detail="counterexample did not reproduce on the real code")
            else:
                v.update(verdict="error", detail="replay failed: %s" % r)
    elif st == "PRE_UNSAT":
        v.update(verdict="vacuous", detail=res.get("message"))
    else:
        v.update(verdict="error", detail=(res.get("message") or "")[:500] + " | " + (res.get("tb") or "")[-1200:])
    v["rx_patterns"] = res.get("rx_patterns", [])
    v["reached"] = res.get("reached", [])
    return v


def run_conditions(conds, jobs=None, progress=True):
    jobs = jobs or NPROC
    out = [None] * len(conds)
    t0 = time.time()
    # longest first
    order = sorted(range(len(conds)), key=lambda i: -conds[i].T)
    with cf.ThreadPoolExecutor(max_workers=jobs) as ex:
        futs = {ex.submit(_run_worker, conds[i]): i for i in order}
        done = 0
        for f in cf.as_completed(futs):
            i = futs[f]
            res = f.result()
            out[i] = classify(conds[i], res)
            conds[i].result = out[i]
            done += 1
            if progress:
                v = out[i]
                sys.stderr.write("[%4.0fs %d/%d] %-14s %s paths=%s cpu=%ss %s\n" % (
                    time.time() - t0, done, len(conds), v["verdict"], v["label"], v["paths"], v["cpu_s"],
                    (v.get("call") or v.get("detail") or "")[:200]))
                sys.stderr.flush()
    return out


# ---------------------------------------------------------------- known findings

def load_known_findings():
    path = os.path.join(VERIF, "known_findings.json")
    if not os.path.exists(path):
        return []
    return json.load(open(path))


def match_known(pid, v, findings):
    """A reproduced counterexample is a known finding only if an *open* entry for this property
    and harness has a predicate that holds on the concrete arguments."""
    if "call" not in v:
        return None
    try:
        node = ast.parse(v["call"], mode="eval").body
        args = [ast.literal_eval(a) for a in node.args]
        kwargs = {k.arg: ast.literal_eval(k.value) for k in node.keywords}
    except Exception:
        return None
    for f in findings:
        if f.get("status") != "open" or f.get("property") != pid:
            continue
        if f.get("harness") and f["harness"] != v["function"]:
            continue
        try:
            if eval(f["match"], {"args": args, "kwargs": kwargs, "params": v["params"], "replay": v.get("replay", {})}):
                return f
        except Exception:
            continue
    return None


def write_replay_file(pid, v):
    os.makedirs(os.path.join(VERIF, "replays"), exist_ok=True)
    blob = {"property": pid, "module": v["module"], "function": v["function"], "params": v["params"],
            "call": v.get("call"), "observed": v.get("replay"), "message": v.get("message"),
            "how_to_replay": "cd /verif && ./vcheck --replay <this file>"}
    h = hashlib.sha1(json.dumps(blob, sort_keys=True).encode()).hexdigest()[:10]
    path = os.path.join(VERIF, "replays", "%s-%s.json" % (pid, h))
    json.dump(blob, open(path, "w"), indent=1)
    return path
