#!/usr/bin/env python3
"""Confirm every seeded change in a scratch worktree of /repo (outside /repo and /verif): the patch applies, the 30 tests pass with it,
its demonstration fails with it and passes without it.  Then copy it to /verif/seeded/<id>/ with meta.json."""
import json
import os
import shutil
import subprocess
import sys

WT = "/tmp/seedverify"
SRC = sys.argv[1] if len(sys.argv) > 1 else "/tmp/mut"
TAG = sys.argv[2] if len(sys.argv) > 2 else "m"      # id = <property>-<TAG><n>
OUT = sys.argv[3] if len(sys.argv) > 3 else "/tmp/seedverify.json"


def sh(cmd, cwd=None, env=None):
    return subprocess.run(cmd, shell=True, capture_output=True, text=True, cwd=cwd, env=env)


def main():
    sh("git -C /repo worktree remove --force %s" % WT)
    r = sh("git -C /repo worktree add --detach %s HEAD" % WT)
    assert r.returncode == 0, r.stderr
    out = []
    try:
        for pid in sorted(os.listdir(SRC)):
            d = os.path.join(SRC, pid, "out")
            if not os.path.isdir(d):
                continue
            for m in sorted(os.listdir(d)):
                md = os.path.join(d, m)
                if not os.path.isdir(md) or not m.startswith("m"):
                    continue
                ported = os.path.exists(os.path.join(md, "ported.diff"))
                patch = os.path.join(md, "ported.diff" if ported else "patch.diff")
                demo = os.path.join(md, "demo.py")
                rec = {"id": "%s-%s%s" % (pid, TAG, m[1:]), "property": pid, "ported_onto_fix_commits": ported, "dir": md}
                env = dict(os.environ, PYTHONPATH="python")
                base = sh("/venv/bin/python %s" % demo, cwd=WT, env=env)
                rec["demo_passes_without_change"] = base.returncode == 0
                a = sh("git apply %s" % patch, cwd=WT)
                rec["applies"] = a.returncode == 0
                if a.returncode == 0:
                    t = sh("/venv/bin/python -m pytest -q -p no:cacheprovider", cwd=WT)
                    rec["tests_pass_with_change"] = "30 passed" in t.stdout
                    dm = sh("/venv/bin/python %s" % demo, cwd=WT, env=env)
                    rec["demo_fails_with_change"] = dm.returncode != 0
                    rec["demo_output_with_change"] = (dm.stdout + dm.stderr)[-400:]
                sh("git checkout -- . && git clean -fdq", cwd=WT)
                out.append(rec)
                print(json.dumps({k: v for k, v in rec.items() if k != "demo_output_with_change"}))
                sys.stdout.flush()
    finally:
        sh("git -C /repo worktree remove --force %s" % WT)
    json.dump(out, open(OUT, "w"), indent=1)


if __name__ == "__main__":
    main()
