#!/usr/bin/env python3
"""copy the confirmed seeded changes from the sub-agents' scratch directories into /verif/seeded/<id>/ with meta.json"""
import json, os, shutil, sys
SRC = sys.argv[1] if len(sys.argv) > 1 else "/tmp/mut"
TAG = sys.argv[2] if len(sys.argv) > 2 else "m"
VER = sys.argv[3] if len(sys.argv) > 3 else "/tmp/seedverify.json"
ver = {r["id"]: r for r in json.load(open(VER))}
for pid in sorted(os.listdir(SRC)):
    d = os.path.join(SRC, pid, "out")
    if not os.path.isdir(d):
        continue
    for m in sorted(os.listdir(d)):
        md = os.path.join(d, m)
        if not (os.path.isdir(md) and m.startswith("m")):
            continue
        sid = "%s-%s%s" % (pid, TAG, m[1:])
        v = ver.get(sid, {})
        dst = os.path.join("/verif/seeded", sid)
        os.makedirs(dst, exist_ok=True)
        ported = os.path.exists(os.path.join(md, "ported.diff"))
        shutil.copy(os.path.join(md, "ported.diff" if ported else "patch.diff"), os.path.join(dst, "patch.diff"))
        if ported:
            shutil.copy(os.path.join(md, "patch.diff"), os.path.join(dst, "original_patch_against_pinned_commit.diff"))
        shutil.copy(os.path.join(md, "demo.py"), os.path.join(dst, "demo.py"))
        notes = open(os.path.join(md, "notes.md")).read() if os.path.exists(os.path.join(md, "notes.md")) else ""
        meta = {"id": sid, "breaks_property": pid, "author": "independent sub-agent given only the property text and a scratch worktree",
                "needs_to_manifest": notes.strip()[:1500],
                "ported": ported and "the sub-agent's patch was written against the pinned commit and overlapped with a later fix: commit; the same change was re-applied by hand on top of the fix commits (original kept alongside)" or False,
                "confirmed": {"applies_to_current_repo_HEAD": v.get("applies"), "existing_30_tests_pass_with_change": v.get("tests_pass_with_change"),
                              "demo_fails_with_change": v.get("demo_fails_with_change"), "demo_passes_without_change": v.get("demo_passes_without_change"),
                              "how": "tools/seedverify.py in a scratch worktree /tmp/seedverify (removed afterwards): git apply; /venv/bin/python -m pytest -q; PYTHONPATH=python /venv/bin/python demo.py"}}
        if not v.get("applies"):
            meta["status"] = "superseded: the code this change modifies was removed by a fix: commit (b065c1a, literal placeholder replacement); kept for the record, not applicable to the current tree"
        json.dump(meta, open(os.path.join(dst, "meta.json"), "w"), indent=1)
print(len(os.listdir("/verif/seeded")))
