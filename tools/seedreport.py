#!/usr/bin/env python3
"""write seeded/README.md (which check catches which seeded change) from seeded/RESULTS*.json and the meta files"""
import glob, json, os
res = {}
hist = {}
for f in sorted(glob.glob("/verif/seeded/RESULTS*.json"), key=os.path.getmtime):
    for k, v in json.load(open(f)).items():
        hist.setdefault(k, []).append(v.get("exit"))
        if k not in res or v.get("exit") == 1 or res[k].get("exit") != 1:
            res[k] = v
rows = []
for sid in sorted(d for d in os.listdir("/verif/seeded") if os.path.isdir(os.path.join("/verif/seeded", d))):
    meta = json.load(open(os.path.join("/verif/seeded", sid, "meta.json")))
    r = res.get(sid)
    first = (meta.get("needs_to_manifest") or "").split("\n")[0].lstrip("# ").strip()[:150]
    if meta.get("status", "").startswith("superseded"):
        rows.append((sid, meta["breaks_property"], "n/a", "superseded by fix b065c1a (the code it changes no longer exists)", first))
        continue
    if not r:
        rows.append((sid, meta["breaks_property"], "not run", "", first))
        continue
    by = (r.get("caught_by") or r.get("first_lines") or [""])[0]
    by = by.split(" -> ")[0][:140]
    status = {1: "DETECTED", 0: "missed", 2: "harness error"}.get(r.get("exit"), str(r.get("exit")))
    if r.get("exit") == 1 and any(e != 1 for e in hist.get(sid, [])):
        status = "DETECTED (after the check was strengthened; first run: %s)" % {0: "missed", 2: "harness error"}.get([e for e in hist[sid] if e != 1][0], "?")
    rows.append((sid, meta["breaks_property"], status, by, first))
with open("/verif/seeded/README.md", "w") as f:
    f.write("# Seeded changes and the checks that catch them\n\nEach directory holds `patch.diff` (applies to /repo HEAD), `demo.py` (fails with the change, passes without), `meta.json`.\n"
            "`-mN` = first wave (2 per property), `-nN` = second wave (3 per property, asked for less obvious mechanisms), `-pN` = third wave, `-qN` = fourth wave (one per property for ten properties, asked for mechanisms that need something specific to manifest). All were written by sub-agents that saw only the property text.\n"
            "Result of running the quick check of the property the change was written for (`tools/seedall.py`, each change in its own scratch worktree via VERIF_REPO):\n\n")
    f.write("| change | property | result | first violated condition (counterexample call) | what was changed |\n|---|---|---|---|---|\n")
    for r in rows:
        f.write("| %s | %s | %s | `%s` | %s |\n" % (r[0], r[1], r[2], r[3].replace("|", "\\|"), r[4].replace("|", "\\|")))
    n = len([r for r in rows if r[2] != "n/a"])
    d = len([r for r in rows if r[2].startswith("DETECTED")])
    f.write("\n%d of %d applicable changes detected by the quick check of their own property.\n" % (d, n))
print(open("/verif/seeded/README.md").read()[-200:])
