#!/opt/veriftools/pyvenv/bin/python
"""run an ad-hoc list of conditions (python expression over Cond) through the runner and print the verdicts; development aid.
usage: tools/runconds.py "[Cond('harness.kw','keyword_in_role',{...},T=300)]"   (VERIF_REPO selects the tree)"""
import sys
import time
sys.path.insert(0, "/verif")
from kit import runner
from kit.runner import Cond  # noqa

conds = eval(sys.argv[1])
t0 = time.time()
for c, v in zip(conds, runner.run_conditions(conds)):
    print(v["verdict"], c.label, v.get("call"), "paths=%s cpu=%.0fs" % (v.get("paths"), v.get("cpu_s") or 0), (v.get("detail") or "")[:200])
print("wall %.0fs" % (time.time() - t0))
