#!/usr/bin/env python3
"""Apply a seeded change to /repo, run the given checks, undo the change straight afterwards.
usage: tools/seedtest.py <patch.diff> <PID> [<PID>...] [--tier quick|thorough]"""
import subprocess
import sys
import time


def sh(cmd, **kw):
    return subprocess.run(cmd, shell=True, capture_output=True, text=True, **kw)


def main():
    args = sys.argv[1:]
    tier = "quick"
    if "--tier" in args:
        i = args.index("--tier")
        tier = args[i + 1]
        del args[i:i + 2]
    patch, pids = args[0], args[1:]
    st = sh("git -C /repo status --porcelain --untracked-files=no").stdout.strip()
    if st:
        print("refusing: /repo has local changes:\n" + st)
        return 2
    r = sh("git -C /repo apply %s" % patch)
    if r.returncode:
        print("patch does not apply: " + r.stderr)
        return 2
    out = {}
    try:
        for pid in pids:
            t0 = time.time()
            r = sh("cd /verif && ./vcheck %s --tier %s" % (pid, tier))
            lines = [l for l in r.stdout.splitlines() if l.startswith(("VIOLATION", "HARNESS-ERROR", "OK ", "KNOWN-FINDING", "NOT-EXHAUSTED", "  "))]
            out[pid] = (r.returncode, lines[:6], time.time() - t0)
            print("%s exit=%d %.0fs" % (pid, r.returncode, time.time() - t0))
            for l in lines[:6]:
                print("   " + l[:400])
    finally:
        sh("git -C /repo checkout -- .")
    st = sh("git -C /repo status --porcelain --untracked-files=no").stdout.strip()
    if st:
        print("WARNING: /repo not clean after undo: " + st)
    return 0


if __name__ == "__main__":
    sys.exit(main())
