#!/usr/bin/env python3
"""Fourth-wave collection: the sub-agent left its change applied (uncommitted) in its own scratch worktree <src>/<PID> with demo.py
in the worktree root.  Take `git diff` as the patch, confirm everything in a *fresh* scratch worktree of /repo HEAD (patch applies,
the 30 tests pass with it, demo fails with it and passes without it), and store it as /verif/seeded/<PID>-<tag>1/.
usage: tools/seedwave.py <src> <tag> <PID> "<mechanism>" "<needs>" """
import json
import os
import shutil
import subprocess
import sys

WT = "/tmp/seedverify"


def sh(cmd, cwd=None, env=None):
    return subprocess.run(cmd, shell=True, capture_output=True, text=True, cwd=cwd, env=env)


def main():
    src, tag, pid, mech, needs = sys.argv[1:6]
    w = os.path.join(src, pid)
    sid = "%s-%s1" % (pid, tag)
    patch = sh("git diff -- python/gherkin", cwd=w).stdout
    assert patch.strip(), "no change in " + w
    dst = os.path.join("/verif/seeded", sid)
    os.makedirs(dst, exist_ok=True)
    open(os.path.join(dst, "patch.diff"), "w").write(patch)
    shutil.copy(os.path.join(w, "demo.py"), os.path.join(dst, "demo.py"))
    sh("git -C /repo worktree remove --force %s" % WT)
    r = sh("git -C /repo worktree add --detach %s HEAD" % WT)
    assert r.returncode == 0, r.stderr
    rec = {}
    try:
        shutil.copy(os.path.join(dst, "demo.py"), os.path.join(WT, "demo.py"))
        base = sh("/venv/bin/python ../demo.py", cwd=WT + "/python")
        rec["demo_passes_without_change"] = base.returncode == 0
        a = sh("git apply %s/patch.diff" % dst, cwd=WT)
        rec["applies_to_current_repo_HEAD"] = a.returncode == 0
        t = sh("/venv/bin/python -m pytest -q -p no:cacheprovider python/test", cwd=WT)
        rec["existing_30_tests_pass_with_change"] = "30 passed" in t.stdout
        dm = sh("/venv/bin/python ../demo.py", cwd=WT + "/python")
        rec["demo_fails_with_change"] = dm.returncode != 0
        rec["demo_output_with_change"] = (dm.stdout + dm.stderr)[-500:]
        rec["how"] = ("tools/seedwave.py in a fresh scratch worktree /tmp/seedverify of /repo HEAD (removed afterwards): "
                      "cd python && /venv/bin/python ../demo.py; git apply patch.diff; /venv/bin/python -m pytest -q -p no:cacheprovider python/test; "
                      "cd python && /venv/bin/python ../demo.py")
    finally:
        sh("git -C /repo worktree remove --force %s" % WT)
    meta = {"id": sid, "breaks_property": pid, "author": "independent sub-agent given only the property text and a scratch worktree (fourth wave)",
            "title": mech, "needs_to_manifest": "q1 — " + mech + "\n" + needs, "confirmed": rec}
    json.dump(meta, open(os.path.join(dst, "meta.json"), "w"), indent=1)
    ok = all(rec.get(k) for k in ("demo_passes_without_change", "applies_to_current_repo_HEAD", "existing_30_tests_pass_with_change", "demo_fails_with_change"))
    print(sid, "CONFIRMED" if ok else "NOT CONFIRMED", json.dumps({k: v for k, v in rec.items() if k not in ("how", "demo_output_with_change")}))
    if not ok:
        shutil.rmtree(dst)
    return 0 if ok else 1


if __name__ == "__main__":
    sys.exit(main())
