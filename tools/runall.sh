#!/bin/sh
# run every quick (or thorough) check on the unchanged tree, one after the other; summary in /tmp/runall_<tier>.txt
tier=${1:-quick}
out=/tmp/runall_$tier.txt
: > $out
cd /verif
if [ "$tier" = thorough ]; then VERIF_EVIDENCE_DIR=/verif/evidence_thorough; export VERIF_EVIDENCE_DIR; fi
for p in C01 C02 C03 C04 C05 C06 C07 C08 C09 C10 C11 C12 C13 C14 C15 C16 C17 C18 C19; do
  s=$(date +%s)
  ./vcheck $p --tier $tier > /tmp/runall_$p.out 2> /tmp/runall_$p.err
  rc=$?
  e=$(date +%s)
  echo "$p rc=$rc wall=$((e-s)) $(grep -E '^(OK|VIOLATION|HARNESS-ERROR|NOT-EXHAUSTED|KNOWN)' /tmp/runall_$p.out | cut -c1-160 | tr '\n' '|')" >> $out
done
