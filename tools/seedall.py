#!/usr/bin/env python3
"""Run every seeded change against the quick check(s) of the property it breaks, each in its own scratch worktree of /repo
(VERIF_REPO points the whole kit at the worktree; evidence goes to a scratch directory).  Writes seeded/RESULTS.json."""
import json
import os
import subprocess
import sys
import time

ONLY = [a for a in sys.argv[1:] if not a.startswith("--")]
res = {}
path = "/verif/seeded/RESULTS.json"
for a in sys.argv[1:]:
    if a.startswith("--out="):
        path = a[6:]
if os.path.exists(path):
    res = json.load(open(path))
for sid in sorted(os.listdir("/verif/seeded")):
    d = os.path.join("/verif/seeded", sid)
    if not os.path.isdir(d):
        continue
    if ONLY and sid not in ONLY and sid.split("-")[0] not in ONLY and not any(sid.endswith(o) for o in ONLY if o.startswith("-")) \
            and not any(o.startswith("wave:") and sid.split("-")[1].startswith(o[5:6]) and sid.split("-")[0] in o[7:].split(",") for o in ONLY):
        continue
    meta = json.load(open(os.path.join(d, "meta.json")))
    if meta.get("status", "").startswith("superseded"):
        continue
    pid = meta["breaks_property"]
    wt = "/tmp/seedrun/" + sid
    subprocess.run("git -C /repo worktree remove --force %s" % wt, shell=True, capture_output=True)
    r = subprocess.run("git -C /repo worktree add --detach %s HEAD && git -C %s apply %s/patch.diff" % (wt, wt, d), shell=True, capture_output=True, text=True)
    if r.returncode:
        res[sid] = {"error": r.stderr[-300:]}
        continue
    t0 = time.time()
    env = dict(os.environ, VERIF_REPO=wt, VERIF_EVIDENCE_DIR="/tmp/seedrun/evidence")
    p = subprocess.run("cd /verif && ./vcheck %s --tier quick" % pid, shell=True, capture_output=True, text=True, env=env)
    lines = [l for l in p.stdout.splitlines() if l.startswith(("VIOLATION", "HARNESS-ERROR", "OK "))]
    what = [l.strip() for l in p.stdout.splitlines() if l.startswith("  ")][:2]
    res[sid] = {"property": pid, "check": "./vcheck %s --tier quick" % pid, "exit": p.returncode, "detected": p.returncode == 1,
                "first_lines": lines[:2], "caught_by": what[:1], "wall_s": round(time.time() - t0)}
    subprocess.run("git -C /repo worktree remove --force %s" % wt, shell=True, capture_output=True)
    print(sid, res[sid]["exit"], res[sid]["wall_s"], (what or lines or [""])[0][:160])
    sys.stdout.flush()
    json.dump(res, open(path, "w"), indent=1)
