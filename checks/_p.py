"""Shared glue for the Engine-P (z3 over extracted tables) part of C02 / C13 / C14 / C16 / C18 / C01."""
import hashlib
import json
import os
import time

from kit import extract, pmodel, berp, runner


def tables():
    return extract.python_tables()


def finish(pid, results, t0, extra_cov=None, samples=None, harness_errors=None):
    """turn query records into the solver_part() result of kit.main"""
    violations = []
    herr = list(harness_errors or [])
    nontrivial = 0
    for r in results:
        if r["result"] not in ("sat", "unsat"):
            herr.append("z3 answered %s on %s" % (r["result"], r["query"]))
            continue
        if r["result"] == r["expect"]:
            nontrivial += 1
            continue
        if r["expect"] == "sat":
            herr.append("vacuity twin failed (unsat): " + r["query"])
            continue
        dyn = dynamic_replay(r.get("model") or {})
        blob = {"property": pid, "engine": "P", "query": r["query"], "model": r.get("model"), "dynamic_replay_on_real_parser": dyn,
                "how_to_replay": "cd /verif && ./vcheck %s   (the query is regenerated from /repo's current parser sources)" % pid}
        os.makedirs(os.path.join(runner.VERIF, "replays"), exist_ok=True)
        h = hashlib.sha1(json.dumps(blob, sort_keys=True, default=str).encode()).hexdigest()[:10]
        path = os.path.join(runner.VERIF, "replays", "%s-P-%s.json" % (pid, h))
        json.dump(blob, open(path, "w"), indent=1, default=str)
        violations.append({"replay": path, "what": "%s: %s" % (r["query"], json.dumps(r.get("model"), default=str)[:500])})
    cov = dict(extra_cov or {})
    cov["z3_queries"] = len(results)
    cov["z3_queries_decided_as_expected"] = nontrivial
    return {"violations": violations, "harness_errors": herr, "coverage": cov,
            "samples": (samples or []) + [{"z3_query": r["query"], "result": r["result"], "solver_s": r["solver_s"]} for r in results][:40],
            "queries": len(results), "queries_nontrivial": nontrivial,
            "solver_s": sum(r["solver_s"] for r in results),
            "summary": "%d z3 queries (%d as expected) in %.1fs" % (len(results), nontrivial, time.time() - t0)}


def dynamic_replay(model):
    """concretise a (state, match vector) model into line-kind sequences and run them through the REAL parser
    against the specification-level parser (harness.pdrv.compare) under /venv/bin/python"""
    try:
        from kit import pvalidate
        st = int(model.get("state"))
        T = tables()
        seen = pvalidate.paths_to_states(T)
        kinds = [k[2:] for k, v in model.items() if k.startswith("m_") and v == "True" and k[2:] not in ("Other", "EOF")] or ["Other"]
        out = []
        for (s_, ci), seq in seen.items():
            if s_ != st:
                continue
            for k in kinds:
                for compl in ([], ["ScenarioLine"], ["ExamplesLine"], ["StepLine"]):
                    ks = [pvalidate.K2ABS[x] for x in seq + [k] + compl]
                    r = runner.replay("harness.pdrv", "compare(%r, False)" % (ks,), {})
                    out.append({"kinds": seq + [k] + compl, "outcome": r.get("outcome")})
                    if r.get("outcome") == "violated":
                        return {"reproduced": True, "witness": out[-1]}
        return {"reproduced": False, "tried": len(out)}
    except Exception as e:  # static difference only
        return {"reproduced": False, "error": "%s: %s" % (type(e).__name__, e)}


def compare_language_tables(pid, out):
    """shipped table identical to master table (plain comparison of two files; labelled as such, not a solver result)"""
    import hashlib
    a = open(os.path.join(runner.REPO, "gherkin-languages.json"), "rb").read()
    b = open(os.path.join(runner.REPO, "python/gherkin/gherkin-languages.json"), "rb").read()
    same_json = json.loads(a) == json.loads(b)
    out.setdefault("coverage", {})["language_tables"] = {"byte_identical": a == b, "json_equal": same_json, "sha1_master": hashlib.sha1(a).hexdigest(),
                                                          "note": "plain file comparison, not a solver result"}
    if not same_json:
        ta, tb = json.loads(a), json.loads(b)
        diff = [(d, c) for d in ta for c in ta[d] if tb.get(d, {}).get(c) != ta[d][c]][:5]
        os.makedirs(os.path.join(runner.VERIF, "replays"), exist_ok=True)
        path = os.path.join(runner.VERIF, "replays", "%s-tables.json" % pid)
        json.dump({"property": pid, "what": "shipped language table differs from master table", "first_differences": diff}, open(path, "w"))
        out.setdefault("violations", []).append({"replay": path, "what": "python/gherkin/gherkin-languages.json differs from the master table at %s" % (diff,)})
    return out


def untranslatable(pid, e):
    return {"violations": [], "harness_errors": ["parser.py does not have the shape the strict translator accepts: %s" % e],
            "coverage": {}, "samples": [], "queries": 0, "queries_nontrivial": 0, "solver_s": 0.0, "summary": "untranslatable"}


def validate_translation(T):
    """Run the real Parser (stub matcher, recording builder) along one shortest path into every state and
    one step along every transition, and compare the events with what the extracted tables predict."""
    import subprocess, sys
    env = dict(os.environ)
    env["PYTHONPATH"] = runner.VERIF + ":" + runner.REPO + "/python"
    env.pop("VERIF_SYMBOLIC", None)
    p = subprocess.run([runner.PY_REAL, "-m", "kit.pvalidate"], cwd=runner.VERIF, env=env, capture_output=True, text=True, timeout=600)
    for line in p.stdout.splitlines():
        if line.startswith("PVALIDATE "):
            return json.loads(line[len("PVALIDATE "):])
    return {"error": (p.stderr or p.stdout)[-800:]}


def reuse_conditions(k=1, stride=4, T=300):
    """the same Parser / matcher / builder first parses other documents (accepted, rejected, ending inside a doc string,
    with the same faults at the same lines), then the symbolic one: results must equal those of fresh instances"""
    from kit import specparse
    from kit.runner import Cond
    from kit.pdrive import OTHER, FEATURE, STEP, DOCA, TAGBAD, SCENARIO, ROW1, ROW2
    fn = {1: "agree1", 2: "agree2", 3: "agree3"}
    cs = []
    seen = set()
    i = 0
    for key, seq in specparse.prefixes():
        if tuple(seq) in seen:
            continue
        seen.add(tuple(seq))
        i += 1
        if i % stride:
            continue
        from kit.pdrive import TAG, COMMENT
        before = [seq + [OTHER] * k, seq + [FEATURE] * k, [FEATURE, SCENARIO, STEP, DOCA, OTHER], seq + [TAGBAD] * k,
                  [FEATURE, SCENARIO, STEP, ROW1, ROW2], seq + [STEP] * k,
                  # a parse that is aborted (stop mode: ragged table noticed when the tag line closes it; collecting mode: at the eleventh
                  # error) while look-ahead tokens are still queued
                  [FEATURE, SCENARIO, STEP, ROW1, ROW2, TAG, COMMENT, SCENARIO, STEP],
                  [OTHER] * 10 + [FEATURE, SCENARIO, STEP, ROW1, ROW2, TAG, TAG, SCENARIO]]
        for stop in (False, True):
            cs.append(Cond("harness.pdrv", fn[k], {"prefix": seq, "k": k, "stop": stop, "before": before}, T=T,
                           label="pdrv.%s[reuse,%sprefix=%s]" % (fn[k], "stop," if stop else "", ",".join(map(str, seq)))))
    return cs


def pdrv_conditions(select="all", k_all=1, k_tags=2, stop_too=True, T1=120, T2=400, T3=2400, extra=(), tag_stride=1, k_tags_rest=1):
    """CrossHair conditions on the real Parser: one per (prefix into a grammar configuration, K symbolic kinds)."""
    from kit import specparse
    from kit.runner import Cond
    from kit.pdrive import OTHER, FEATURE, SCENARIO, TAG
    M = "harness.pdrv"
    fn = {1: "agree1", 2: "agree2", 3: "agree3", 4: "agree4", 5: "agree5"}
    TT = {1: T1, 2: T2, 3: T3, 4: T3, 5: T3}
    cs = []
    ps = specparse.prefixes()
    ntag = 0
    seen_seq = set()
    for key, seq in ps:
        if tuple(seq) in seen_seq:
            continue
        seen_seq.add(tuple(seq))
        tagp = key[1] == "tag-pending"
        if select == "none" or (select == "tags" and not tagp):
            continue
        k = k_all
        if tagp:
            k = k_tags if ntag % tag_stride == 0 else k_tags_rest
            ntag += 1
        if k <= 0:
            continue
        cs.append(Cond(M, fn[k], {"prefix": seq, "k": k}, T=TT[k], label="pdrv.%s[prefix=%s]" % (fn[k], ",".join(map(str, seq)))))
        if stop_too and tagp:
            cs.append(Cond(M, fn[k], {"prefix": seq, "k": k, "stop": True}, T=TT[k], label="pdrv.%s[stop,prefix=%s]" % (fn[k], ",".join(map(str, seq)))))
    for (seq, k, stop) in extra:
        cs.append(Cond(M, fn[k], {"prefix": seq, "k": k, "stop": stop}, T=TT[k], label="pdrv.%s[%sprefix=%s]" % (fn[k], "stop," if stop else "", ",".join(map(str, seq)))))
    return cs
