import time

from kit import extract, pmodel
from kit.runner import Cond
from kit.pdrive import FEATURE, SCENARIO, STEP, DOCA, DOCB, BACKGROUND, RULE
from . import _p, _l, _d

LEVEL = "other"
FUNCTIONS = _l.FUNCTIONS + ["gherkin.parser.Parser states 35-42 (translated to z3; executed under CrossHair through the real parser)",
                            "gherkin.ast_builder.AstBuilder.transform_node (DocString)"]
EXPLANATION = ("Line level (REAL TokenMatcher in an arbitrary doc-string state, symbolic line): the separator opens on either delimiter and closes only on the "
               "active one; content = line minus the opening delimiter's indentation (a less-indented line loses all of its own), escaped ACTIVE delimiter "
               "un-escaped, the other left alone, matcher state untouched. z3: in the doc-string content states every non-EOF line is content unless the "
               "separator matches. REAL parser at kind level from inside doc strings of a background / scenario / rule step: K symbolic lines incl. both "
               "delimiters and every Gherkin-looking kind. Document level: rendered documents with symbolic content lines")
ASSUMPTIONS = ["content lines <= 2-3 symbolic characters after a concrete head (escaped delimiters, the other delimiter, keywords, tags, comments, table rows)"]

DOC_PREFIXES = [[FEATURE, SCENARIO, STEP, DOCA], [FEATURE, SCENARIO, STEP, DOCB], [FEATURE, BACKGROUND, STEP, DOCA],
                [FEATURE, RULE, SCENARIO, STEP, DOCB], [FEATURE, RULE, BACKGROUND, STEP, DOCA]]


def bounds(tier):
    return {"quick": "content line = indent<=2 + head + <=2 symbolic chars, delimiter state x indent-to-remove in {0,1,3}; parser: 5 doc-string prefixes x K=2",
            "thorough": "<=3 symbolic chars, indent<=3; parser K=3"}[tier]


def solver_part(tier):
    t0 = time.time()
    try:
        T = _p.tables()
    except extract.Untranslatable as e:
        return _p.untranslatable("C13", e)
    res = []
    ds = pmodel.q_docstring_opaque(T["states"], res)
    herr = []
    if len(ds) < 4:
        herr.append("fewer than 4 doc-string content states recognised: %s" % ds)
    return _p.finish("C13", res, t0, {"docstring_content_states": ds}, harness_errors=herr)


def conditions(tier):
    q = tier == "quick"
    n = 2 if q else 3
    cs = []
    for act in ('"""', "```"):
        for itr in (0, 1, 3):
            for head in ("", '\\"\\"\\"', "\\`\\`\\`"):
                cs.append(_l.line1("Other", head, act=act, itr=itr, maxlen=n, maxind=2, T=900))
            if itr == 1:
                for head in ("Given ", "@t", "#", "| a |", "Scenario:", '"""' if act == "```" else "```"):
                    cs.append(_l.line1("Other", head, act=act, itr=itr, maxlen=1, maxind=2, T=600))
    for act in (None, '"""', "```"):
        for head in ('"""', "```"):
            for term in ("\n", "\r\n"):
                cs.append(_l.line1("DocStringSeparator", head, term=term, act=act, itr=0 if act is None else 2, maxlen=n, maxind=2, T=900))
        cs.append(_l.free1("DocStringSeparator", act=act, maxlen=3, T=600))
    cs.append(_l.line1("Other", "", act=None, itr=0, maxlen=n, maxind=2, T=600))
    extra = [(p, 2 if q else 3, False) for p in DOC_PREFIXES]
    cs += _p.pdrv_conditions(select="none", k_all=0, k_tags=0, stop_too=False, extra=extra)
    cs.append(Cond("harness.c18", "scan_text", {"maxlen": 4 if q else 6}, T=900, reach=["two-lines"]))
    for kind, head in (("DocStringSeparator", '"""'), ("DocStringSeparator", "```"), ("Other", "")):
        for hist in ([["open", '    """'], ["reset"]], [["open", "  ```"], ["touch", "x"], ["reset"]], [["open", '"""'], ["reset"]]):
            cs.append(Cond("harness.line", "line_after_history", {"kind": kind, "head": head, "history": hist, "maxlen": 1, "maxind": 2}, T=600,
                           label="line.after_history[%s head=%r hist=%s]" % (kind, head, hist[0][1])))
    cs += _d.doc_conditions(tier, shapes=("docstring",), eols=("\n",) if q else ("\n", "\r\n"))
    cs.append(Cond("harness.line", "twin_never_matches", {"kind": "DocStringSeparator", "heads": ['"""', "```"]}, T=60, expect="cex"))
    return cs
