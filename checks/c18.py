import time

from kit import extract, pmodel
from kit.runner import Cond
from . import _p

LEVEL = "model_checking"
FUNCTIONS = ["gherkin.parser.Parser.parse / read_token / lookahead_0 / lookahead_1 / match_token_at_* / build (executed unchanged under CrossHair)",
             "gherkin.token_formatter_builder.TokenFormatterBuilder._format_token", "gherkin.token_scanner.TokenScanner.read"]
EXPLANATION = ("The REAL Parser (look-ahead loops and token queue included) runs under CrossHair on a prefix into every grammar configuration "
               "followed by K symbolic line kinds; asserted: the builder receives exactly one token per line, in order, then one EOF (accepted); "
               "every line is delivered xor reported (rejected); the scanner is read once per line. z3: look-ahead definitions (skip/expected "
               "sets, re-queue discipline) extracted from parser.py equal the siblings' and satisfy the drain invariant "
               "(every look-ahead skips a superset of what any look-ahead leaves queued)")
ASSUMPTIONS = ["matcher contract MC1-MC6 for the stub matcher (decided for the real matcher by C01/C13)",
               "documents longer than prefix+K lines: covered only through the per-state one-step structure (every state x every kind) and the drain invariant"]


def bounds(tier):
    return {"quick": "every pending-tag prefix (56) x K=1, every 5th x K=2 symbolic lines after the tag line (17 kinds), both error modes",
            "thorough": "every pending-tag prefix x K=2 (K=3 on every 20th), both modes; every 2nd other prefix x K=2"}[tier]


def solver_part(tier):
    import z3
    t0 = time.time()
    try:
        T = _p.tables()
    except extract.Untranslatable as e:
        return _p.untranslatable("C18", e)
    res = []
    las = T["lookaheads"]
    # drain invariant as a z3 query over kinds: a token left in the queue by look-ahead A (i.e. one A skipped) is skipped
    # or accepted by look-ahead B as well, for all A, B - so a later look-ahead always drains the queue before reading on
    kinds = extract.KINDS
    k = z3.Int("kind")
    s = z3.Solver()
    s.add(k >= 0, k < len(kinds))

    def member(names):
        return z3.Or(*[k == kinds.index(n) for n in names]) if names else z3.BoolVal(False)

    viol = []
    for a in las:
        for b in las:
            viol.append(z3.And(member(las[a]["skip"]), z3.Not(member(las[b]["skip"]))))
    s.add(z3.Or(*viol))
    pmodel._check(s, "drain invariant: every look-ahead skips exactly the kinds any look-ahead can leave queued behind its last token", res)
    s2 = z3.Solver()
    s2.add(k >= 0, k < len(kinds), member(las["lookahead_0"]["skip"]))
    pmodel._check(s2, "drain invariant twin (skip sets non-empty)", res, expect="sat")
    from kit import berp
    pmodel.q_lookaheads(las, res, berp.build())
    herr = []
    for la, d in las.items():
        if d["requeue"] != "extend":
            # not a shape problem: report through the real-parser harness (which executes whatever is there)
            pass
    val = _p.validate_translation(T)
    if val.get("error") or val.get("disagreements", 1) != 0:
        herr.append("translation validation failed: %r" % (val,))
    ntr = sum(len(st["trans"]) for st in T["states"].values())
    cov = {"states": len(T["states"]) + 1, "transitions": ntr, "traces_validated_against_impl": val.get("traces", 0), "lookaheads": las}
    return _p.finish("C18", res, t0, cov, harness_errors=herr)


def conditions(tier):
    if tier == "quick":
        cs = _p.pdrv_conditions(select="tags", k_tags=2, k_tags_rest=1, tag_stride=5, stop_too=True)
    else:
        cs = _p.pdrv_conditions(select="tags", k_tags=3, k_tags_rest=2, tag_stride=20, stop_too=True) + _p.pdrv_conditions(k_all=2, k_tags=0, stop_too=False)[::2]
    if tier == "quick":
        cs += [c for c in _p.pdrv_conditions(k_all=1, k_tags=0, stop_too=False)]
    cs += _p.reuse_conditions(k=1, stride=6 if tier == "quick" else 1)
    cs.append(Cond("harness.c18", "format_token", T=300))
    cs.append(Cond("harness.c18", "scanner_numbers_lines", T=300))
    cs.append(Cond("harness.c18", "scan_text", {"maxlen": 4 if tier == "quick" else 6}, T=600, reach=["two-lines"]))
    cs.append(Cond("harness.c18", "twin_format", T=60, expect="cex"))
    return cs
