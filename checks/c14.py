import time

import z3

from kit import extract, pmodel
from kit.runner import Cond
from kit.pdrive import OTHER, FEATURE, SCENARIO, STEP, TAGBAD, ROW1, ROW2, LANGBAD
from . import _p, _l

LEVEL = "model_checking"
FUNCTIONS = ["gherkin.parser.Parser (all state functions translated to z3; parse / match_token_at_* / add_error / handle_external_error / look-aheads executed unchanged under CrossHair)",
             "gherkin.errors.* constructors", "gherkin.gherkin_line.GherkinLine.tags", "gherkin.token_matcher.TokenMatcher.match_Language / match_TagLine",
             "gherkin.ast_builder.AstBuilder.ensure_cell_count / get_table_rows", "gherkin.stream.gherkin_events.create_errors"]
EXPLANATION = ("z3: for every state and every one of the 2^14 match vectors the expected-token list of the error branch and the stay-state equal each of the five "
               "sibling parsers'. CrossHair on the REAL parser (prefix into every grammar configuration + K symbolic lines of 17 kinds, incl. raising tag / language "
               "lines and ragged tables; both error modes; prefixes with 9 faults to reach the eleven-error cap): error classes, lines, expected lists, "
               "order, de-duplication, cap, stop-mode = first collected error, no AST when rejected, all equal to the specification-level parser. "
               "Line level: tag-with-whitespace error column and message prefix, unknown-language error at the header, exception constructors, parseError envelopes")
ASSUMPTIONS = ["matcher contract MC1-MC6 for the stub matcher (the real matcher is checked at line level here and in C01/C05)",
               "for a raising tag / language line the oracle fixes the continuation the property leaves open as: the line then counts as a line of no own kind (all sibling implementations do this)"]


def bounds(tier):
    return {"quick": "z3: 42 states x 2^14 vectors; CrossHair: every prefix x K=1 (collecting), K=1 stop mode on every 3rd, cap prefixes x K=2; tag lines <= 3 symbolic chars",
            "thorough": "CrossHair: every prefix x K=2 (stop mode on every 3rd), cap prefixes x K=3; tag lines <= 4 symbolic chars"}[tier]


def solver_part(tier):
    t0 = time.time()
    try:
        T = _p.tables()
    except extract.Untranslatable as e:
        return _p.untranslatable("C14", e)
    res = []
    herr = []
    for lang in extract.SIBLINGS:
        sib = extract.sibling_tables(lang)
        if len(sib) != 42:
            herr.append("sibling extractor failed for " + lang)
            continue
        # error branch only: expected list + stay state, under every match vector that enables no transition
        uni = pmodel.Universe()
        v = pmodel.Vars()

        def err_only(states):
            stripped = {n: dict(st, trans=[(k, la, [("build",)], 0) for (k, la, p, t) in st["trans"]]) for n, st in states.items()}
            return pmodel.encode(stripped, uni, v)

        s = z3.Solver()
        s.add(z3.Or(*[v.state == n for n in T["states"]]))
        s.add(err_only(T["states"]) != err_only(sib))
        pmodel._check(s, "error branch (which vectors are errors, expected-token list, stay state) equals %s in every state" % lang, res)
    # the parser stays in the same state after an error
    v = pmodel.Vars()
    s = z3.Solver()
    stay = z3.IntVal(-1)
    for n, st in T["states"].items():
        stay = z3.If(v.state == n, z3.IntVal(st["stay"]), stay)
    s.add(z3.Or(*[v.state == n for n in T["states"]]), stay != v.state)
    pmodel._check(s, "after an unexpected line the parser stays in the same state", res)
    ntr = sum(len(st["trans"]) for st in T["states"].values())
    val = _p.validate_translation(T)
    if val.get("error") or val.get("disagreements", 1) != 0:
        herr.append("translation validation failed: %r" % (val,))
    cov = {"states": len(T["states"]) + 1, "transitions": ntr, "traces_validated_against_impl": val.get("traces", 0), "driver": T["driver"]}
    return _p.finish("C14", res, t0, cov, harness_errors=herr)


def conditions(tier):
    q = tier == "quick"
    caps = [([OTHER] * 9, 2 if q else 3, False), ([FEATURE, SCENARIO] + [FEATURE] * 8, 2 if q else 3, False),
            ([OTHER] * 8 + [TAGBAD], 2, False), ([FEATURE, SCENARIO, STEP, ROW1, ROW2] + [FEATURE] * 8, 2, False),
            ([LANGBAD], 2, False), ([LANGBAD], 2, True), ([FEATURE, SCENARIO, STEP, ROW2, ROW1], 2, True), ([FEATURE, SCENARIO, STEP, ROW2, ROW1], 2, False)]
    if q:
        cs = _p.pdrv_conditions(k_all=1, k_tags=1, stop_too=False, extra=caps)
        more = _p.pdrv_conditions(k_all=1, k_tags=1, stop_too=False)
        for i, c in enumerate(more):
            if i % 3 == 0:
                p = dict(c.params, stop=True)
                cs.append(Cond(c.module, c.function, p, T=c.T, label=c.label.replace("[", "[stop,", 1)))
    else:
        cs = _p.pdrv_conditions(k_all=2, k_tags=2, stop_too=True, extra=caps)
        more = _p.pdrv_conditions(k_all=2, k_tags=0, stop_too=False)
        for c in more[::3]:
            cs.append(Cond(c.module, c.function, dict(c.params, stop=True), T=c.T, label=c.label.replace("[", "[stop,", 1)))
    n = 3 if q else 4
    for head in ("@", "@a", "@a @"):
        for term in ("\n", "\r\n"):
            cs.append(_l.line1("TagLine", head, term=term, maxlen=n, maxind=1, T=900, reach=["raises", "match"]))
    # errors of a document do not depend on what the same Parser parsed before (incl. parses aborted with look-ahead tokens queued)
    cs += _p.reuse_conditions(k=1, stride=8 if q else 2)
    cs.append(Cond("harness.kw", "language_header", {"names": ["zz", "en", "xx-yy"], "slots": [0, 4], "term": "\n"}, T=600, reach=["raises"]))
    for f in ("unexpected_token", "unexpected_eof", "plain_errors", "parse_error_envelopes"):
        cs.append(Cond("harness.err", f, T=300))
    cs.append(Cond("harness.c12", "rectangular", T=300, reach=["ragged"]))
    cs.append(Cond("harness.err", "twin_never_column_fallback", T=60, expect="cex"))
    cs.append(Cond("harness.pdrv", "twin_never_rejects", {"prefix": [4]}, T=120, expect="cex"))
    return cs
