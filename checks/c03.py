from kit.runner import Cond
from . import _d, _l, _p

LEVEL = "other"
FUNCTIONS = _d.FUNCTIONS
EXPLANATION = ("The REAL Parser + TokenMatcher + AstBuilder run under CrossHair on documents rendered from a document model (five families: titles/tags/"
               "comments, steps with data tables, doc strings in background and scenario, descriptions with comment / blank / white-space-only lines, "
               "outlines with examples blocks and a rule with background) whose text pieces are symbolic strings; the returned AST must equal the AST "
               "the writer prescribes: every element once, in order, under the right parent, keywords as written, names and step text trimmed, "
               "descriptions per the statement, nothing extra (dict key sets compared). Line level: remainder-of-line trimming for every title / step keyword head")
ASSUMPTIONS = ["kind-level part: matcher contract MC1-MC6 for the stub matcher; the AST census (numbers of nodes per kind and their order of lines) is compared, texts are the document families' subject",
               "symbolic text pieces: <= 1 (quick) / 2 (thorough) characters each, three per document, any code points except line feed, carriage return, '|' and backslash "
               "(cells / escapes are C12's subject; carriage returns occur only in CRLF line ends); tag names without blanks/'@'/'#'",
               "dialect en; <= 1 rule, <= 2 scenarios, <= 3 steps, <= 2 examples blocks per document"]


def bounds(tier):
    return {"quick": "5 families (description x 3 line-kind arrangements, doc string x 2 delimiters), LF line ends, 3 symbolic pieces <= 1 char; plus CRLF for steps and description",
            "thorough": "pieces <= 2 chars, LF and CRLF for every family, 5 description arrangements"}[tier]


def conditions(tier):
    q = tier == "quick"
    cs = _d.doc_conditions(tier, eols=("\n",), deep=True)
    if not q:
        cs += _d.doc_conditions("quick", eols=("\r\n",))
    if q:
        cs += _d.doc_conditions(tier, shapes=("steps", "description"), eols=("\r\n",))
    # a result already returned must stay what it was when the same Parser / builder go on to other documents
    cs += _d.doc_conditions(tier, shapes=("titles", "steps") if q else ("titles", "steps", "docstring", "description", "outline"), fn="reuse_matches_fresh",
                            extra={"history": ["comments", "rejected", "accepted"]})
    for kind, head in (("FeatureLine", "Feature:"), ("ScenarioLine", "Scenario Outline:"), ("StepLine", "Given "), ("StepLine", "* "), ("ExamplesLine", "Examples:")):
        cs.append(_l.line1(kind, head, maxlen=2 if q else 3, maxind=1, T=600))
    # element structure at line-kind level: the REAL parser + REAL AstBuilder from every grammar configuration; the AST must contain
    # exactly the rules / backgrounds / scenarios / examples / steps / rows / doc strings / tags / comments the specification-level parser opened
    cs += _p.pdrv_conditions(k_all=1, k_tags=1, stop_too=False) if q else _p.pdrv_conditions(k_all=2, k_tags=2, stop_too=False)[::2]
    # the scanner hands the matcher the physical lines of the source text, cut at line feeds and nowhere else (exact text, nothing extra)
    cs.append(Cond("harness.c18", "scan_text", {"maxlen": 4 if q else 6}, T=900, reach=["two-lines"]))
    cs.append(Cond(_d.M, "twin_never_parses", {"shape": "steps"}, T=120, expect="cex"))
    return cs
