"""Dialect pairs that give the SAME step keyword string DIFFERENT keyword types (e.g. 'Dan ' = then in nl/af, and in id/bm).
Computed from /repo's language table on every run.  A matcher that keeps keyword -> type entries of a dialect it used earlier
(instead of rebuilding the table on every dialect change) goes wrong on exactly these pairs and on no other, so the reuse histories
of C05/C10/C15 include them: one (dialect, other) pair per colliding keyword and direction."""
import json
import os

from kit import runner

STEP_CATS = ("given", "when", "then", "and", "but")


def _types(table, d):
    out = {}
    for cat in STEP_CATS:
        for k in table[d][cat]:
            out.setdefault(k, set()).add("conj" if cat in ("and", "but") else cat)
    return out


def colliding_pairs(limit=None):
    table = json.load(open(os.path.join(runner.REPO, "gherkin-languages.json"), encoding="utf-8"))
    names = sorted(table)
    types = {d: _types(table, d) for d in names}
    pairs, seen = [], set()
    for d in names:
        for o in names:
            if d == o:
                continue
            for k in sorted(types[d]):
                if k in types[o] and types[o][k] != types[d][k] and len(types[d][k]) == 1 and (k, d) not in seen:
                    # keyword k has ONE type in d (so the matcher must report it, not Unknown) and other type(s) in o
                    seen.add((k, d))
                    if (d, o) not in pairs:
                        pairs.append((d, o))
    return pairs if limit is None else pairs[:limit]
