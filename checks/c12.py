from kit.runner import Cond

LEVEL = "other"
FUNCTIONS = ["gherkin.gherkin_line.GherkinLine.split_table_cells", "GherkinLine.table_cells", "GherkinLine.__init__",
             "gherkin.ast_builder.AstBuilder.ensure_cell_count"]
EXPLANATION = ("Bounded symbolic execution (CrossHair, z3 decides every branch) of the real splitter/trimmer against an "
               "index-based reference written from the README rules; rows/cells are unconstrained Unicode strings up to the bound")
ASSUMPTIONS = ["rows longer than the stated bound are outside the claim (except by the character-class partition, which is exhaustive over the 5 classes the splitter distinguishes)"]
M = "harness.c12"


def bounds(tier):
    return {"quick": "row <= 5 chars; line = indent<=1 + '|' + body<=4 + terminator; cell text <= 4; tables <= 4 rows x <= 3 cells",
            "thorough": "row <= 7 chars (25 class-prefix partitions); body <= 4; cell text <= 4"}[tier]


def conditions(tier):
    cs = []
    if tier == "quick":
        cs.append(Cond(M, "split_equals_reference", {"maxlen": 5}, T=120, reach=["two-cells"]))
        cs.append(Cond(M, "cells_equal_reference", {"maxlen": 3, "maxind": 1, "maxtail": 2}, T=600))
        cs.append(Cond(M, "cell_round_trip", {"maxlen": 3}, T=240, reach=["linefeed-in-cell"]))
    else:
        for a in range(5):
            for b in range(5):
                cs.append(Cond(M, "split_equals_reference", {"maxlen": 7, "classes": [a, b]}, T=1500))
        cs.append(Cond(M, "split_equals_reference", {"maxlen": 1}, T=60))
        cs.append(Cond(M, "cells_equal_reference", {"maxlen": 4, "maxind": 1, "maxtail": 2}, T=2400))
        cs.append(Cond(M, "cell_round_trip", {"maxlen": 4}, T=2400, reach=["linefeed-in-cell"]))
    cs.append(Cond(M, "rectangular", T=120, reach=["ragged"]))
    cs.append(Cond("harness.c18", "scan_text", {"maxlen": 4}, T=600, reach=["two-lines"]))
    # reachability / falsity twins: each must be refuted with a replayable witness
    for f in ("split_twin_never_two_cells", "split_twin_no_linefeed", "split_twin_no_backslash_kept",
              "cells_twin_never_trimmed", "round_trip_twin", "rectangular_twin"):
        cs.append(Cond(M, f, T=60, expect="cex"))
    return cs
