"""condition grids for the line-level harness (harness.line): one concrete head / terminator / matcher state per
condition, symbolic indentation and symbolic remainder."""
from kit.runner import Cond

M = "harness.line"
FUNCTIONS = ["gherkin.token_matcher.TokenMatcher.match_* / _match_title_line / _match_DocStringSeparator / _set_token_matched / _change_dialect / _unescaped_docstring",
             "gherkin.gherkin_line.GherkinLine.__init__ / get_rest_trimmed / get_line_text / startswith* / table_cells / split_table_cells / tags",
             "gherkin.token.Token", "gherkin.errors.ParserException / NoSuchLanguageException", "gherkin.dialect.Dialect.for_name"]


def lbl(kind, head, term, act, itr, fn, maxlen, maxind):
    return "line.%s[%s head=%r term=%r act=%r itr=%d len<=%d ind<=%d]" % (fn, kind, head, term, act, itr, maxlen, maxind)


def line1(kind, head, term="\n", act=None, itr=0, maxlen=2, maxind=1, T=300, reach=()):
    return Cond(M, "line1", {"kind": kind, "head": head, "term": term, "act": act, "itr": itr, "maxlen": maxlen, "maxind": maxind},
                T=T, reach=list(reach), label=lbl(kind, head, term, act, itr, "line1", maxlen, maxind))


def free1(kind, term="\n", act=None, itr=0, maxlen=3, T=300):
    return Cond(M, "free1", {"kind": kind, "term": term, "act": act, "itr": itr, "maxlen": maxlen}, T=T,
                label=lbl(kind, "", term, act, itr, "free1", maxlen, 0))


HEADS = {
    "FeatureLine": ["Feature:", "Ability:", "Feature"],
    "RuleLine": ["Rule:"],
    "BackgroundLine": ["Background:"],
    "ScenarioLine": ["Scenario:", "Scenario Outline:", "Example:", "Scenario Template"],
    "ExamplesLine": ["Examples:", "Scenarios:"],
    "StepLine": ["Given ", "* ", "But ", "Then"],
    "TagLine": ["@", "@a", "@a @"],
    "TableRow": ["|", "|\\n|"],
    "Comment": ["#"],
    "Empty": [""],
    "DocStringSeparator": ['"""', "```"],
    "Other": ["", '\\"\\"\\"', "\\`\\`\\`"],
}
