"""condition grids for the line-level harness (harness.line): one concrete head / terminator / matcher state per
condition, symbolic indentation and symbolic remainder."""
from kit.runner import Cond

M = "harness.line"
FUNCTIONS = ["gherkin.token_matcher.TokenMatcher.match_* / _match_title_line / _match_DocStringSeparator / _set_token_matched / _change_dialect / _unescaped_docstring",
             "gherkin.gherkin_line.GherkinLine.__init__ / get_rest_trimmed / get_line_text / startswith* / table_cells / split_table_cells / tags",
             "gherkin.token.Token", "gherkin.errors.ParserException / NoSuchLanguageException", "gherkin.dialect.Dialect.for_name"]


def lbl(kind, head, term, act, itr, fn, maxlen, maxind):
    return "line.%s[%s head=%r term=%r act=%r itr=%d len<=%d ind<=%d]" % (fn, kind, head, term, act, itr, maxlen, maxind)


def line1(kind, head, term="\n", act=None, itr=0, maxlen=2, maxind=1, T=300, reach=()):
    return Cond(M, "line1", {"kind": kind, "head": head, "term": term, "act": act, "itr": itr, "maxlen": maxlen, "maxind": maxind},
                T=T, reach=list(reach), label=lbl(kind, head, term, act, itr, "line1", maxlen, maxind))


def free1(kind, term="\n", act=None, itr=0, maxlen=3, T=300):
    return Cond(M, "free1", {"kind": kind, "term": term, "act": act, "itr": itr, "maxlen": maxlen}, T=T,
                label=lbl(kind, "", term, act, itr, "free1", maxlen, 0))


HEADS = {
    "FeatureLine": ["Feature:", "Ability:", "Feature"],
    "RuleLine": ["Rule:"],
    "BackgroundLine": ["Background:"],
    "ScenarioLine": ["Scenario:", "Scenario Outline:", "Example:", "Scenario Template"],
    "ExamplesLine": ["Examples:", "Scenarios:"],
    "StepLine": ["Given ", "* ", "But ", "Then"],
    "TagLine": ["@", "@a", "@a @"],
    "TableRow": ["|", "|\\n|"],
    "Comment": ["#"],
    "Empty": [""],
    "DocStringSeparator": ['"""', "```"],
    "Other": ["", '\\"\\"\\"', "\\`\\`\\`"],
}


def interesting_dialects(table, limit=None):
    """dialects picked by properties of their keyword data (computed from the master table at run time): keywords that are not in
    Unicode NFC, step keywords without a trailing blank, step keywords that are proper prefixes of other step keywords, keywords
    with characters outside letters/blanks, right-to-left scripts; always 'en' first"""
    import unicodedata
    cats = ["feature", "rule", "background", "scenario", "scenarioOutline", "examples", "given", "when", "then", "and", "but"]
    out = {}
    for d, spec in table.items():
        why = []
        kws = [k for c in cats for k in spec[c]]
        steps = [k for c in cats[6:] for k in spec[c]]
        if any(unicodedata.normalize("NFC", k) != k for k in kws):
            why.append("non-NFC keyword")
        if any(not k.endswith(" ") for k in steps):
            why.append("space-less step keyword")
        if any(a != b and b.startswith(a) and a != "* " for a in steps for b in steps):
            why.append("step keyword prefix pair")
        if any(unicodedata.bidirectional(ch) in ("R", "AL") for k in kws for ch in k):
            why.append("right-to-left")
        if any(not (ch.isalpha() or ch.isspace() or ch == "*") for k in kws for ch in k):
            why.append("punctuation in keyword")
        if why:
            out[d] = why
    names = ["en"] + sorted(d for d in out if d != "en")
    return names[:limit] if limit else names, out
