from kit.runner import Cond
from . import _d, _c, _p, _l

LEVEL = "other"
FUNCTIONS = _d.FUNCTIONS + ["gherkin.parser.Parser.parse (reset of builder and matcher, fresh context)", "gherkin.token_matcher.TokenMatcher.reset / _change_dialect",
                            "gherkin.ast_builder.AstBuilder.reset", "gherkin.pickles.compiler.Compiler.compile"]
EXPLANATION = ("History: (1) the REAL TokenMatcher is put through a history (dialect switch by header, ordinary lines, an indented doc string left open) followed by "
               "reset(), then a symbolic line must be matched exactly as by a fresh matcher (all keyword roles, Other text, doc-string separator); "
               "(2) one REAL Parser + TokenMatcher + AstBuilder + id generator parse a history of documents (accepted, rejected, French, ending inside a "
               "doc string, bad tag, ragged table, comments) and then a rendered document with symbolic text: AST == fresh-instance AST up to the id offset; "
               "(3) at line-kind level the same Parser/builder parse six earlier kind sequences (same faults at the same lines) before K symbolic lines. "
               "Schedules: the interleaving is a solver variable in the form a thread-free engine allows - parser B (and C inside B) runs to completion while A "
               "waits for its i-th line, i and j symbolic. Compile: deep copy of the AST unchanged, one Compiler over a history of documents with colliding ids")
ASSUMPTIONS = ["pre-emptive thread switches inside one line step are outside the claim (CrossHair has no thread model); interleavings are nested, not arbitrary permutations of token reads",
               "sharing ONE TokenMatcher instance between two concurrent parses is not what the property describes and is not checked"]


def bounds(tier):
    return {"quick": "matcher histories x keyword roles (en/fr) x <=1 symbolic char; step keywords of every dialect pair that types one keyword string differently, on a reused matcher; 3 document histories x 3 families; nested schedules i<=9, j<=6; kind-level reuse every 4th prefix; compile histories (rules)",
            "thorough": "all families x all histories (text pieces <= 1 char), matcher histories with <= 1-2 symbolic chars, every prefix"}[tier]


def conditions(tier):
    q = tier == "quick"
    cs = []
    for d, o in ((("en", "fr"),) if q else (("en", "fr"), ("fr", "en"))):
        for mode in (("history", "dirty") if q else ("history", "dirty", "history2")):
            cs.append(Cond("harness.kw", "keyword_in_role", {"dialect": d, "mode": mode, "other": o, "maxlen": 0 if q else 1}, T=900, reach=["in-role"]))
    from . import _kwpairs
    for d, o in _kwpairs.colliding_pairs():
        # the earlier document used a dialect that gives one of this dialect's step keywords another type
        for mode in (("history",) if q else ("history", "history2", "dirty")):
            cs.append(Cond("harness.kw", "keyword_in_role", {"dialect": d, "mode": mode, "other": o, "maxlen": 0, "steps_only": True}, T=900, reach=["in-role"],
                           label="kw.step_keywords[%s after %s,%s]" % (d, o, mode)))
    hist = [["lang", "fr"], ["touch", "Soit x"], ["open", '      """'], ["touch", "y"], ["reset"]]
    for kind, head in (("Other", ""), ("DocStringSeparator", '"""'), ("DocStringSeparator", "```"), ("StepLine", "Given "), ("TableRow", "|"), ("ScenarioLine", "Scenario:")):
        cs.append(Cond("harness.line", "line_after_history", {"kind": kind, "head": head, "history": hist, "maxlen": 1 if q else 2, "maxind": 2}, T=600,
                       label="line.after_history[%s head=%r]" % (kind, head)))
    hist2 = [["open", '    """'], ["touch", "y"], ["reset"]]
    hist3 = [["open", "```"], ["reset"]]          # a doc string opened in column 1 and never closed
    for kind, head in (("DocStringSeparator", '"""'), ("Other", " x")):
        cs.append(Cond("harness.line", "line_after_history", {"kind": kind, "head": head, "history": hist3, "maxlen": 1, "maxind": 2}, T=600,
                       label="line.after_history[unindented open doc string, %s head=%r]" % (kind, head)))
    for kind, head in (("Other", ""), ("DocStringSeparator", '"""'), ("DocStringSeparator", "```")):
        cs.append(Cond("harness.line", "line_after_history", {"kind": kind, "head": head, "history": hist2, "maxlen": 1 if q else 2, "maxind": 2}, T=600,
                       label="line.after_history[no dialect change, %s head=%r]" % (kind, head)))
    hists = [["french", "open-docstring", "rejected"], ["open-docstring2", "bad-tag"], ["ragged", "comments", "accepted"]]
    shapes = ("steps", "docstring", "description") if q else ("titles", "steps", "docstring", "description", "outline")
    for h in hists:
        cs += _d.doc_conditions(tier, shapes=shapes if not q else shapes[hists.index(h):hists.index(h) + 1], fn="reuse_matches_fresh", extra={"history": h})
    for sh, other in (("docstring", "open-docstring"), ("steps", "french"), ("outline", "open-docstring2")):
        cs.append(Cond(_d.M, "nested_parses", {"shape": sh, "other": other, "maxlen": 0 if q else 1}, T=1200, reach=["interleaved"]))
    cs += _p.reuse_conditions(k=1, stride=4 if q else 1)
    cs += _c.shape_conditions("compile_history", "c15", ["rules"] if q else ["feature", "rule1", "rules"], T=1200)
    cs.append(Cond(_d.M, "twin_never_parses", {"shape": "steps"}, T=120, expect="cex"))
    return cs
