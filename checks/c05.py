import hashlib
import json
import os
import time

import z3

from kit import extract, pmodel, runner
from kit.runner import Cond
from . import _p, _l

LEVEL = "other"
FUNCTIONS = _l.FUNCTIONS + ["gherkin/gherkin-languages.json (shipped table, read by the implementation) vs /repo/gherkin-languages.json (master table, read by the oracle)"]
EXPLANATION = ("One CrossHair condition per dialect: the solver picks the keyword (index over all listed keywords of the dialect), whether a colon "
               "follows, and the characters after it; the REAL TokenMatcher must recognise the line in exactly the role(s) the MASTER language "
               "table prescribes, report the keyword as listed (first listed step keyword that prefixes the line), the dialect in force and the "
               "keyword type; as configured default, through a '# language:' header, after a header naming the dialect already in force, and "
               "on a reused matcher whose previous document switched to another dialect. Header spellings: symbolic characters in the gaps "
               "of the header. z3: match_Language is asked for in the start state only")
ASSUMPTIONS = ["byte identity of the shipped and the master language table is compared directly (not a solver result); semantic differences are "
               "also caught because implementation and oracle read different copies",
               "characters after the keyword: <= 1 symbolic character (quick) / 2 (thorough); indentation is covered by the C04 line-level conditions"]

SPECIAL = ["en", "ht", "en-old", "sk", "ja", "zh-CN", "fr", "ar"]


def bounds(tier):
    return {"quick": "dialects %s: all their keywords x role x colon x 1 symbolic following character; modes default/header/history/same for en, ht, fr" % SPECIAL,
            "thorough": "all 80 dialects x all keywords x role (default mode), 3 dialects through header/history/history2/same modes, foreign keywords of 3 x 3 dialect pairs"}[tier]


def solver_part(tier):
    t0 = time.time()
    res = []
    herr = []
    try:
        T = _p.tables()
    except extract.Untranslatable as e:
        return _p.untranslatable("C05", e)
    v = pmodel.Vars()
    s = z3.Solver()
    asked = [n for n, st in T["states"].items() if any(k == "Language" for (k, _, _, _) in st["trans"])]
    s.add(z3.Or(*[v.state == n for n in asked]) if asked else z3.BoolVal(False))
    s.add(v.state != 0)
    pmodel._check(s, "a '# language:' header is honoured in the start state only (no other state asks match_Language)", res)
    s2 = z3.Solver()
    s2.add(z3.Or(*[v.state == n for n in asked]) if asked else z3.BoolVal(False))
    pmodel._check(s2, "twin: the start state does ask for it", res, expect="sat")
    out = _p.finish("C05", res, t0)
    _p.compare_language_tables("C05", out)
    return out


def conditions(tier):
    table = json.load(open(os.path.join(runner.REPO, "gherkin-languages.json"), encoding="utf-8"))
    M = "harness.kw"
    cs = []
    if tier == "quick":
        for d in SPECIAL:
            cs.append(Cond(M, "keyword_in_role", {"dialect": d, "maxlen": 1}, T=900, reach=["in-role", "match", "no-match"]))
        for d, o in (("en", "fr"), ("ht", "en"), ("fr", "en")):
            for mode in (("header", "history", "same", "history2") if d == "fr" else ("header", "history", "same")):
                cs.append(Cond(M, "keyword_in_role", {"dialect": d, "mode": mode, "other": o, "maxlen": 0}, T=900, reach=["in-role"]))
    else:
        for d in sorted(table):
            cs.append(Cond(M, "keyword_in_role", {"dialect": d, "maxlen": 1}, T=3000, reach=["in-role"]))
        for d in SPECIAL[:3]:
            o = "en" if d != "en" else "fr"
            for mode in ("header", "history", "history2", "same"):
                cs.append(Cond(M, "keyword_in_role", {"dialect": d, "mode": mode, "other": o, "maxlen": 1}, T=3000, reach=["in-role"]))
        for d, others in (("en", ["fr", "en-pirate", "en-au"]), ("fr", ["en", "it", "es"]), ("ht", ["fr", "en", "sk"])):
            foreign = []
            for o in others:
                for cat in ("feature", "rule", "background", "scenario", "scenarioOutline", "examples", "given", "when", "then", "and", "but"):
                    for k in table[o][cat]:
                        if k not in foreign:
                            foreign.append(k)
            cs.append(Cond(M, "foreign_keyword", {"dialect": d, "foreign": foreign, "maxlen": 1}, T=3000))
    # reused matcher, earlier document in a dialect that types one of this dialect's step keywords differently (pairs computed from the table)
    from . import _kwpairs
    for d, o in _kwpairs.colliding_pairs():
        for mode in (("history",) if tier == "quick" else ("history", "header", "history2")):
            cs.append(Cond(M, "keyword_in_role", {"dialect": d, "mode": mode, "other": o, "maxlen": 0, "steps_only": True}, T=900, reach=["in-role"],
                           label="kw.step_keywords[%s after %s,%s]" % (d, o, mode)))
    # a header naming an unknown dialect leaves the dialect in force (and the dialect a later token / feature reports) untouched
    for d, o in (("en", "fr"), ("fr", "en")):
        for mode in ("badheader", "badheader-same-doc", "badheader-after-switch"):
            cs.append(Cond(M, "keyword_in_role", {"dialect": d, "mode": mode, "other": o, "maxlen": 0}, T=900, reach=["in-role"]))
    # header spellings
    for slots in ([0, 1], [1, 2], [2, 3], [3, 4], [0, 4]):
        for term in (["\n"] if tier == "quick" else ["", "\n", "\r\n"]):
            cs.append(Cond(M, "language_header", {"names": ["en", "zz", "en-pirate", "EN"], "slots": slots, "term": term}, T=600,
                           reach=["match", "no-match", "raises"]))
    # the unknown-dialect error at the header is reported by a reused Parser as well (same header at the same position as in an earlier document)
    from kit.pdrive import LANGBAD, FEATURE, SCENARIO, STEP
    for stop in (False, True):
        cs.append(Cond("harness.pdrv", "agree2", {"prefix": [], "k": 2, "stop": stop, "before": [[LANGBAD, FEATURE, SCENARIO, STEP], [LANGBAD]]}, T=600,
                       label="pdrv.agree2[reuse after an unknown-language document%s]" % (",stop" if stop else "")))
    cs.append(Cond(M, "twin_never_recognised", {"dialect": "en"}, T=60, expect="cex"))
    return cs
