import time

from kit import extract, pmodel, specparse
from kit.runner import Cond
from kit.pdrive import EMPTY, COMMENT, STEP, SCENARIO
from . import _p, _l, _d

LEVEL = "other"
FUNCTIONS = _l.FUNCTIONS + ["gherkin.token_scanner.TokenScanner.__init__ / read (io.StringIO, open, os.path.exists replaced by their documented contracts)",
                            "gherkin.parser.Parser (Empty / Comment transitions; executed unchanged)", "gherkin.ast_builder.AstBuilder.build (comments)",
                            "gherkin.stream.source_events.source_event"]
EXPLANATION = ("Relational checks with the transformation inside the same path condition. Line level (REAL matcher, symbolic line): LF vs CRLF vs no final "
               "line break give identical tokens; trailing blanks on keyword / step / tag / table-row / delimiter lines change nothing; extra indentation "
               "moves only columns by exactly the number of characters added; a doc string moved as a block keeps its content. Scanner: file (universal "
               "newlines) vs string feed the same lines up to the line end. REAL parser at kind level: a blank line inserted wherever the grammar expects "
               "#Empty, and a comment line inserted directly before a keyword / step / tag / row / delimiter line, change the AST only by line numbers "
               "(plus that comment) and errors only by their line; z3: where #Empty is asked for it is a build-only self loop. Documents: the five rendered "
               "families with CRLF line ends and without a final line break must give the AST prescribed for LF")
ASSUMPTIONS = ["documents whose carriage returns occur only in CRLF pairs (as the property states)", "symbolic line remainder <= 2 (quick) / 3 chars; indentation / padding <= 2 blanks of any Unicode white-space kind"]


def bounds(tier):
    return {"quick": "12 line heads x 3 relations x <=2 symbolic chars; every grammar configuration x {blank, comment} insertion x 1 symbolic following kind (K=2 on every 16th); scanner text <= 4 chars; 5 document families CRLF",
            "thorough": "<=3 symbolic chars; insertion K=2 everywhere; scanner text <= 6"}[tier]


def solver_part(tier):
    t0 = time.time()
    try:
        T = _p.tables()
    except extract.Untranslatable as e:
        return _p.untranslatable("C16", e)
    res = []
    asked, not_asked = pmodel.q_empty_selfloop(T["states"], res)
    from kit import berp
    pmodel.q_lookaheads(T["lookaheads"], res, berp.build())
    return _p.finish("C16", res, t0, {"states_asking_empty": asked, "states_not_asking_empty (description / doc-string content)": not_asked})


HEADS = [("StepLine", "Given ", None), ("StepLine", "* ", None), ("FeatureLine", "Feature:", None), ("ScenarioLine", "Scenario Outline:", None),
         ("ExamplesLine", "Examples:", None), ("TagLine", "@a", None), ("TableRow", "|", None), ("DocStringSeparator", '"""', None),
         ("DocStringSeparator", "```", "```"), ("Comment", "#", None), ("Language", "#language:en", None), ("BackgroundLine", "Background:", None)]


def conditions(tier):
    q = tier == "quick"
    n = 2 if q else 3
    cs = []
    for kind, head, act in HEADS:
        p = {"kind": kind, "head": head, "act": act, "itr": 0 if act is None else 2, "maxlen": n if kind not in ("Language",) else 1}
        cs.append(Cond("harness.rel", "terminator_neutral", p, T=600, label="rel.terminator[%s %r]" % (kind, head)))
        if kind not in ("Comment", "Language"):
            cs.append(Cond("harness.rel", "trailing_blanks_neutral", dict(p, maxlen=min(n, 2)), T=600, label="rel.trailing[%s %r]" % (kind, head)))
            cs.append(Cond("harness.rel", "indentation_shifts_columns", dict(p, maxlen=min(n, 2)), T=600, label="rel.indent[%s %r]" % (kind, head)))
    for sep in ('"""', "```"):
        cs.append(Cond("harness.rel", "docstring_block_moves", {"head": sep, "maxlen": n}, T=600))
    cs.append(Cond("harness.c18", "file_vs_string", {"maxlen": 4 if q else 6}, T=900))
    cs.append(Cond("harness.c18", "scan_text", {"maxlen": 4 if q else 6}, T=900, reach=["two-lines"]))
    cs.append(Cond("harness.stream", "source_event_contract", T=300))
    seen = set()
    i = 0
    for key, seq in specparse.prefixes():
        if tuple(seq) in seen:
            continue
        seen.add(tuple(seq))
        i += 1
        for ins in (EMPTY, COMMENT):
            if key[1] == "tag-pending" and q and i % 4:
                continue
            if (q and i % 16) or (not q and i % 4):
                cs.append(Cond("harness.pdrv", "insertion_neutral1", {"prefix": seq, "ins": ins, "next": STEP if i % 2 else SCENARIO}, T=300,
                               label="pdrv.insertion1[ins=%d,prefix=%s]" % (ins, ",".join(map(str, seq)))))
            else:
                cs.append(Cond("harness.pdrv", "insertion_neutral", {"prefix": seq, "ins": ins}, T=900,
                               label="pdrv.insertion2[ins=%d,prefix=%s]" % (ins, ",".join(map(str, seq)))))
    cs += _d.doc_conditions(tier, shapes=("steps", "docstring", "titles") if q else ("titles", "steps", "docstring", "description", "outline"), eols=("\r\n",))
    cs += _d.doc_conditions(tier, shapes=("outline",) if q else ("steps", "outline"), extra={"no_final_eol": True})
    cs.append(Cond("harness.rel", "twin_indent_irrelevant", T=60, expect="cex"))
    return cs
