from kit.runner import Cond
from . import _c

LEVEL = "other"
FUNCTIONS = ["gherkin.pickles.compiler.Compiler._interpolate", "Compiler._compile_scenario_outline", "_create_pickle_arguments", "_pickle_step", "Compiler.compile"]
ASSUMPTIONS = ["header cells are built character by character from an adversarial alphabet of 20 characters (regex metacharacters, backslash, '$', '<', '>', digit, blank) "
               "chosen by the solver through comparison chains; values and templates are unconstrained Unicode strings up to the bound",
               "<= 2 columns; longer headers / templates are outside the claim"]
EXPLANATION = ("The REAL Compiler._interpolate and the whole compile path run under CrossHair with a symbolic value and a symbolic template; the oracle is "
               "sequential literal replacement in header order. Through compile the same symbolic template stands in the scenario name, a step "
               "text, a data-table cell, a doc-string content and media type (all substituted) and in a background step and its table (left as written)")
M = "harness.c09"
N = 20


def bounds(tier):
    return {"quick": "header 1 char (all 20) and 2 chars (20 x 20), value <= 2, template <= 4; two columns: value <= 2, template <= 3; through compile: value <= 1, template <= 3",
            "thorough": "header <= 2 chars, value <= 3, template <= 6; two columns value <= 2 template <= 5; through compile value <= 2 template <= 4"}[tier]


def conditions(tier):
    q = tier == "quick"
    cs = [Cond(M, "interpolate_literal", {"hlen": 1, "vlen": 2 if q else 3, "tlen": 4 if q else 6}, T=600 if q else 3000, reach=["substituted"])]
    for i in range(N):
        cs.append(Cond(M, "interpolate_literal", {"hlen": 2, "vlen": 1 if q else 2, "tlen": 4 if q else 5, "fix": {"i1": i}}, T=600 if q else 3000))
        cs.append(Cond(M, "interpolate_two_columns", {"vlen": 2, "tlen": 3 if q else 5, "fix": {"i1": i}, "h2": "b" if i % 2 else "a.b"}, T=600 if q else 3000))
        cs.append(Cond(M, "through_compile", {"vlen": 1 if q else 2, "tlen": 3 if q else 4, "fix": {"i1": i}}, T=600 if q else 3000))
    # a shorter header before a longer one, and a value that spells the later placeholder: header order decides
    cs.append(Cond(M, "interpolate_two_columns", {"vlen": 3, "tlen": 3, "fix": {"i1": 0}, "h2": "b"}, T=900, label="c09.two_columns[a,b; value<=3]"))
    cs.append(Cond(M, "interpolate_two_columns", {"vlen": 2, "tlen": 4, "fix": {"i1": 0}, "h2": ""}, T=900, label="c09.two_columns[a,''; value<=2]"))
    cs.append(Cond(M, "interpolate_two_columns", {"vlen": 3, "tlen": 4, "fix": {"i1": 0}, "h2": "bb"}, T=900, label="c09.two_columns[a,bb; value<=3]"))
    cs.append(Cond(M, "two_columns_through_compile", {"vlen": 3, "tlen": 4, "h2": "bb"}, T=900, label="c09.two_columns_through_compile[a,bb; value<=3]"))
    cs.append(Cond(M, "two_columns_through_compile", {"vlen": 3, "tlen": 3, "h2": ""}, T=900, label="c09.two_columns_through_compile[a,''; value<=3]"))
    cs.append(Cond(M, "two_tables_fixed", T=120))
    cs.append(Cond(M, "two_tables", {"vlen": 1 if q else 2, "tlen": 4 if q else 6}, T=600 if q else 3000))
    cs.append(Cond(M, "twin_never_substitutes", T=60, expect="cex"))
    return cs
