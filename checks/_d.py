"""condition builders for the document-level harness (harness.doc)"""
from kit.runner import Cond

M = "harness.doc"
FUNCTIONS = ["gherkin.parser.Parser.parse (generated state machine, executed unchanged)", "gherkin.token_scanner.TokenScanner.read",
             "gherkin.token_matcher.TokenMatcher.*", "gherkin.gherkin_line.GherkinLine.*", "gherkin.ast_builder.AstBuilder.* (transform_node, get_tags, get_table_rows, get_cells, get_description, reject_nones)",
             "gherkin.ast_node.AstNode.*", "gherkin.stream.id_generator.IdGenerator"]
DESCS = [["text", "blank", "ws"], ["comment", "blank", "text"], ["ws", "text", "ws"], ["text", "comment", "blank"], ["comment", "ws", "ws"]]


def doc_conditions(tier, shapes=("titles", "steps", "docstring", "description", "outline"), fn="ast_matches_model", extra=None, eols=("\n",), T=900, start=0, deep=False):
    q = tier == "quick"
    # text pieces of 2 symbolic characters cost 10-30 CPU-minutes per family: only where asked for (C03 thorough)
    n = 2 if (deep and not q) else 1
    cs = []
    for sh in shapes:
        for eol in eols:
            base = {"shape": sh, "maxlen": n, "eol": eol, "start": start}
            if extra:
                base.update(extra)
            variants = [base]
            if sh == "description":
                variants = [dict(base, desc=d) for d in (DESCS[:3] if q else DESCS)]
            if sh == "docstring":
                variants = [dict(base, delim='"""'), dict(base, delim="```")]
            for p in variants:
                cs.append(Cond(M, fn, p, T=T if q else 4 * T, reach=["parsed"],
                               label="doc.%s[%s]" % (fn, ",".join("%s=%r" % kv for kv in sorted(p.items()) if kv[0] not in ("maxlen",)))))
    return cs
