from kit.runner import Cond
from . import _l, _d, _p

LEVEL = "other"
FUNCTIONS = _l.FUNCTIONS + ["gherkin.token_scanner.TokenScanner.read", "gherkin.ast_builder.AstBuilder.get_location / get_tags / get_cells",
                            "gherkin.errors.UnexpectedTokenException / UnexpectedEOFException (location fall-backs)"]
EXPLANATION = ("Line level (REAL matcher, symbolic indentation of any Unicode white space incl. tabs, symbolic remainder incl. non-BMP code points): the reported "
               "column is indent+1 in code points for keyword / step / tag / row / delimiter lines, 1 for comments; tag items at their '@'; cell items at the "
               "first non-blank character of the raw cell or the closing '|' of an empty cell; and reading the source line at the reported column gives back the "
               "keyword, the tag name, or a raw cell text that un-escapes to the value. Line numbers: the REAL TokenScanner on a symbolic text numbers "
               "physical lines from 1, lines end at line feeds only. Errors: location fall-backs of the exception constructors; at kind level every "
               "error carries the line of the unexpected line (EOF: one past the last). Documents: the five rendered families with space / tab / mixed indentation")
ASSUMPTIONS = ["symbolic remainder <= 2-3 characters, indentation <= 2 white-space characters; longer lines through the concrete heads and document families only"]


def bounds(tier):
    return {"quick": "22 line heads x (column check + source-slice check), remainder <= 2 (table rows / tags <= 3), indentation <= 2; scanner text <= 4 chars; documents with ' ', tab and mixed indentation",
            "thorough": "remainder <= 3 (rows/tags <= 4), scanner text <= 6"}[tier]


def conditions(tier):
    q = tier == "quick"
    n = 2 if q else 3
    cs = []
    for kind, heads in _l.HEADS.items():
        if kind in ("Empty",):
            continue
        for head in heads:
            big = kind in ("TagLine", "TableRow")
            cs.append(_l.line1(kind, head, maxlen=n + (1 if big else 0), maxind=2, T=900))
            if kind in ("Other",):
                continue
            p = {"kind": kind, "head": head, "maxlen": n + (1 if big else 0), "maxind": 2}
            if kind == "TagLine":
                p["exclude_at_blank"] = True     # known finding F6 is assumed away here; its witness is replayed separately
            cs.append(Cond("harness.slice", "source_slice", p, T=900, label="slice.source_slice[%s head=%r]" % (kind, head)))
    cs.append(_l.line1("TableRow", "| a |", term="\r\n", maxlen=n, maxind=1, T=900))
    cs.append(Cond("harness.c18", "scan_text", {"maxlen": 4 if q else 6}, T=900, reach=["two-lines"]))
    cs.append(Cond("harness.c18", "scanner_numbers_lines", T=300))
    for f in ("unexpected_token", "unexpected_eof", "plain_errors"):
        cs.append(Cond("harness.err", f, T=300))
    for ind in ("\t", " \t", "   "):
        cs += _d.doc_conditions(tier, shapes=("steps", "titles") if q else ("titles", "steps", "docstring", "outline"), extra={"ind": ind})
    cs += _p.pdrv_conditions(k_all=1, k_tags=1, stop_too=False)[::3 if q else 1]
    cs.append(Cond("harness.slice", "twin_column_always_one", {"kind": "StepLine", "head": "Given "}, T=60, expect="cex"))
    return cs
