from kit.runner import Cond
from . import _c

LEVEL = "other"
FUNCTIONS = _c.FUNCTIONS
ASSUMPTIONS = _c.ASSUMPTIONS
EXPLANATION = ("The REAL Compiler runs under CrossHair on parser-shaped ASTs whose shape (slot types of two scenario slots, background variants at "
               "feature and rule level) is chosen by the solver; compared with a reference compiler written from the statement: one pickle per "
               "plain scenario and per body row of every examples table with a header, document order, uri/language/name/astNodeIds")


def bounds(tier):
    return {"quick": "contexts feature / rule1 / rules; 6 slot types x 6 x 4 x 4 background variants per context (all decided by solver-chosen paths)",
            "thorough": "as quick plus histories (three documents through one Compiler) in every context"}[tier]


def conditions(tier):
    cs = _c.shape_conditions("compile_agrees", "c06", ["feature", "rule1", "rules"])
    cs += _c.shape_conditions("compile_history", "c06", ["rule1"] if tier == "quick" else ["feature", "rule1", "rules"], T=1800)
    cs += _c.source_level(tier)
    cs.append(Cond(_c.M, "twin_never_pickles", {"ctx": "feature"}, T=120, expect="cex"))
    return cs
