from kit.runner import Cond
from . import _d

LEVEL = "other"
FUNCTIONS = ["gherkin.stream.gherkin_events.GherkinEvents.enum / create_errors", "gherkin.stream.source_events.source_event (file read stubbed by its contract)",
             "gherkin.parser.Parser.parse", "gherkin.ast_builder.AstBuilder.*", "gherkin.pickles.compiler.Compiler.compile", "gherkin.stream.id_generator.IdGenerator"]
EXPLANATION = ("The REAL GherkinEvents.enum runs under CrossHair; the solver chooses the three print options and which three sources (accepted documents of "
               "four families, a rejected one) pass through ONE stream in which order. Every envelope must satisfy a shape validator written from the Cucumber "
               "Messages schema (required keys, types, fixed vocabularies, no null, JSON-plain values) and the envelope list of each source must equal: "
               "source (if asked), gherkinDocument with uri (if asked), pickles (if asked) - or only parseError envelopes (uri, location, message) for a "
               "rejected source; envelopes already yielded are unchanged after later sources; ids distinct across the stream")
ASSUMPTIONS = ["text pieces of the rendered sources are concrete in this harness (symbolic text is the subject of C03/C04/C12/C13); symbolic: 3 option bits, 3 source choices out of 4",
               "os.path.exists is stubbed to False (source text, not a path); json.dumps is a C boundary: serialisability is decided structurally and confirmed by json.dumps in the replay"]


def bounds(tier):
    return "8 option combinations x 5^3 ordered source triples (three accepted families, a rejected source, a rejected source hitting the eleven-error limit), one stream each, also in stop-at-first-error mode; source_event on a stubbed file"


def conditions(tier):
    cs = []
    for s1 in range(5):
        for ps in (False, True):
            cs.append(Cond("harness.stream", "stream_agrees", {"fix": {"s1": s1, "ps": ps}}, T=900, reach=["accepted"] + (["rejected"] if True else [])))
    for s1 in (1, 2):
        cs.append(Cond("harness.stream", "stream_agrees", {"fix": {"s1": s1, "ps": True}, "stop": True}, T=900, reach=["accepted", "rejected"],
                       label="stream.stream_agrees[stop-at-first-error,s1=%d]" % s1))
    cs.append(Cond("harness.stream", "source_event_contract", T=300))
    cs.append(Cond("harness.stream", "twin_never_pickle", T=120, expect="cex"))
    return cs
