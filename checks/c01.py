import time

from kit import extract, pmodel
from kit.runner import Cond
from kit.pdrive import OTHER, FEATURE, SCENARIO, TAGBAD
from . import _p, _l, _c, _d

LEVEL = "other"
FUNCTIONS = _l.FUNCTIONS + _d.FUNCTIONS + _c.FUNCTIONS + ["gherkin.parser.Parser.* (driver and all state functions)", "gherkin.stream.gherkin_events.GherkinEvents.enum",
                                                           "gherkin.token_scanner.TokenScanner.__init__ (os.path.exists / open / io.StringIO by contract)"]
EXPLANATION = ("Layered: (a) line layer - the REAL matcher on fully symbolic lines: every match_* returns a bool or raises ParserException with a located error, own kinds are "
               "exclusive, Other always matches (the contract the parser layer assumes); (b) parser layer - the REAL Parser+AstBuilder from every grammar configuration "
               "x symbolic kinds in both error modes: ends at EOF, 1..11 located errors or a document, only ParserError escapes, each token matched a bounded number of "
               "times (linear matching work); z3: no transition leads to an undefined state; (c) whole pipeline on symbolic text tails behind five concrete prefixes; "
               "(d) compiler on the symbolic AST family and adversarial placeholder headers returns a list, never raises; (e) stream yields only the four envelope kinds; "
               "(f) environment branch: os.path.exists as an arbitrary bool")
ASSUMPTIONS = ["fully symbolic text: <= 3 characters behind a concrete prefix (a fully symbolic first line explodes in the language-header pattern); longer inputs through the layered argument only",
               "CPython's own cost per matching operation (and recursion / memory limits on very long files) is not modelled; 'linear' is the per-token bound on match_* calls (<= 48) proven for every token of every explored run"]


def bounds(tier):
    return {"quick": "lines <= 2-3 symbolic chars x 13 matchers; every grammar configuration x K=1 (both modes on every 2nd), cap prefixes K=2; text tails <= 2 chars x 5 prefixes",
            "thorough": "lines <= 3-4 chars; K=2; text tails <= 3 chars"}[tier]


def solver_part(tier):
    t0 = time.time()
    try:
        T = _p.tables()
    except extract.Untranslatable as e:
        return _p.untranslatable("C01", e)
    res = []
    pmodel.q_closed(T["states"], res)
    return _p.finish("C01", res, t0, {"states": len(T["states"]) + 1})


PREFIXES = ["Feature: f\n", "Feature: f\n  Scenario: s\n    Given x\n", "Feature: f\n  Scenario: s\n    Given x\n      \"\"\"\n",
            "Feature: f\n  Scenario Outline: s\n    Given x\n    Examples:\n      | a |\n", "@t\n"]


def conditions(tier):
    q = tier == "quick"
    cs = []
    for act in (None, '"""', "```"):
        cs.append(Cond("harness.line", "contract_free", {"maxlen": 2 if q else 3, "act": act}, T=900))
    for kind in ("Empty", "Comment", "TagLine", "FeatureLine", "RuleLine", "BackgroundLine", "ScenarioLine", "ExamplesLine", "StepLine",
                 "DocStringSeparator", "TableRow", "Other"):
        cs.append(_l.free1(kind, maxlen=2 if q else 3, T=900))
    caps = [([OTHER] * 9, 2, False), ([OTHER] * 8 + [TAGBAD], 2, False), ([FEATURE, SCENARIO] + [FEATURE] * 8, 2, True)]
    base = _p.pdrv_conditions(k_all=1, k_tags=1, stop_too=False, extra=caps)
    if not q:
        base += _p.pdrv_conditions(k_all=2, k_tags=2, stop_too=False)[::2]
    cs += base
    for i, c in enumerate(base[:-3] if q else base):
        if i % 2 == 0 and (q or i % 4 == 0):
            cs.append(Cond(c.module, c.function, dict(c.params, stop=True), T=c.T, label=c.label.replace("[", "[stop,", 1)))
    for pi, px in enumerate(PREFIXES):
        for stop in (False, True):
            n = 2 if q else 3
            cs.append(Cond("harness.c01", "pipeline_total", {"maxlen": n, "text_prefix": px, "stop": stop}, T=600 if q else 1500,
                           label="c01.pipeline_total[%sprefix=%r]" % ("stop," if stop else "", px)))
    cs.append(Cond("harness.c01", "source_text_is_text", {"exclude_path_or_text": True}, T=300))
    cs.append(Cond("harness.c18", "scan_text", {"maxlen": 4}, T=900, reach=["two-lines"]))
    cs += _c.shape_conditions("compile_agrees", "all", ["feature"] if q else ["feature", "rule1", "rules"])
    cs.append(Cond("harness.c09", "interpolate_literal", {"hlen": 1, "vlen": 2, "tlen": 4}, T=600, reach=["substituted"]))
    for s1 in (0, 1):
        cs.append(Cond("harness.stream", "stream_agrees", {"fix": {"s1": s1, "ps": True}}, T=900, reach=["accepted", "rejected"]))
    cs.append(Cond("harness.stream", "stream_agrees", {"fix": {"s1": 1, "ps": False}, "stop": True}, T=900, reach=["accepted", "rejected"],
                   label="stream.stream_agrees[stop-at-first-error,s1=1]"))
    cs.append(Cond("harness.c01", "twin_never_accepts", {"text_prefix": "Feature: f\n"}, T=120, expect="cex"))
    return cs
