from kit.runner import Cond
from . import _c

LEVEL = "other"
FUNCTIONS = _c.FUNCTIONS + ["gherkin.token_matcher.TokenMatcher.match_StepLine / _change_dialect / reset (keyword -> keyword type)"]
ASSUMPTIONS = ["keyword types are drawn from the five-word vocabulary the matcher produces (C05 decides that the matcher produces exactly these)",
               "<= 2 background steps + <= 3 scenario steps; longer step lists are outside the claim"]
EXPLANATION = ("The REAL Compiler runs under CrossHair on a scenario (plain and outline with two rows, at feature level and inside a rule) whose five step "
               "keyword types are chosen by the solver from {Context, Action, Outcome, Conjunction, Unknown}; step types must equal the fold "
               "'conjunction inherits the previous type, first is Unknown' and lie in the four-word vocabulary")


def bounds(tier):
    return ("5^5 keyword-type sequences x plain/outline, background 2 + scenario 3 steps, and background 0 + 3; feature level and inside a rule; "
            "matcher side: step keywords of en/fr (thorough: all dialects) fresh, after a header and on reused matchers, plus every dialect pair "
            "that types one keyword string differently (computed from gherkin-languages.json) on a reused matcher")


def solver_part(tier):
    from . import _p
    out = {"violations": [], "harness_errors": [], "coverage": {}, "samples": [], "queries": 0, "queries_nontrivial": 0, "solver_s": 0.0,
           "summary": "keyword table: shipped copy compared with the master copy (plain comparison)"}
    return _p.compare_language_tables("C10", out)


def conditions(tier):
    cs = []
    for k1 in range(5):
        cs.append(Cond(_c.M, "keyword_types", {"nbg": 2, "nsc": 3, "fix": {"k1": k1}}, T=600))
    for k3 in range(5):
        cs.append(Cond(_c.M, "keyword_types", {"nbg": 0, "nsc": 3, "fix": {"k1": 0, "k2": 0, "k3": k3}}, T=300))
        cs.append(Cond(_c.M, "keyword_types", {"nbg": 1, "nsc": 2, "rule": True, "fix": {"k2": 0, "k5": 0, "k3": k3}}, T=300))
    # matcher side: the keyword type a step line gets (category of the keyword; Unknown when listed in several), also after a
    # '# language:' header naming the dialect already in force and on a reused matcher whose previous document used another dialect
    for d, o, mode in (("en", "fr", "default"), ("en", "fr", "same"), ("en", "fr", "history"), ("fr", "en", "header"), ("fr", "en", "history2")) + \
            (() if tier == "quick" else (("ht", "en", "default"), ("ka", "en", "default"), ("sk", "en", "history2"))):
        cs.append(Cond("harness.kw", "keyword_in_role", {"dialect": d, "mode": mode, "other": o, "maxlen": 0, "steps_only": True}, T=900, reach=["in-role"],
                       label="kw.step_keyword_types[%s,%s]" % (d, mode)))
    # reused matcher whose earlier document used a dialect that gives the SAME keyword string ANOTHER type ('Dan ' nl/af vs id/bm, ...):
    # every such (keyword, dialect) is covered by one pair, pairs computed from the language table of the tree under check
    from . import _kwpairs
    for d, o in _kwpairs.colliding_pairs():
        for mode in (("history",) if tier == "quick" else ("history", "history2", "header")):
            cs.append(Cond("harness.kw", "keyword_in_role", {"dialect": d, "mode": mode, "other": o, "maxlen": 0, "steps_only": True}, T=900, reach=["in-role"],
                           label="kw.step_keyword_types[%s after %s,%s]" % (d, o, mode)))
    if tier != "quick":
        import json, os
        from kit import runner
        for d in sorted(json.load(open(os.path.join(runner.REPO, "gherkin-languages.json"), encoding="utf-8"))):
            cs.append(Cond("harness.kw", "keyword_in_role", {"dialect": d, "mode": "default", "maxlen": 0, "steps_only": True}, T=900, reach=["in-role"],
                           label="kw.step_keyword_types[%s,default]" % d))
    cs += _c.source_level(tier)[::2]
    cs.append(Cond(_c.M, "twin_types_never_unknown", T=60, expect="cex"))
    return cs
