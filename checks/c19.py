import json
import os

from kit import runner
from kit.runner import Cond

LEVEL = "other"
FUNCTIONS = ["gherkin.token_matcher_markdown.GherkinInMarkdownTokenMatcher.match_FeatureLine / match_RuleLine / match_ScenarioLine / match_BackgroundLine / match_ExamplesLine / "
             "match_StepLine / match_TableRow / match_TagLine / _match_title_line / _is_gfm_table_separator", "gherkin.gherkin_line.GherkinLine.table_cells"]
EXPLANATION = ("The REAL Markdown matcher runs under CrossHair (its run-time built keyword alternations executed by the regex shim kit.rx on symbolic subjects). "
               "The solver picks the keyword (index over the dialect's listed keywords), the header depth 0..7, the separator character, the title; resp. the bullet "
               "among '*', '+', '-', none, '#', the gap and the step text; table indentation 0..8 with a symbolic white-space character and symbolic cells "
               "(GFM separator cells included); two back-ticked tags with symbolic names and gaps. Oracle written from MARKDOWN_WITH_GHERKIN.md as restated in the property")
ASSUMPTIONS = ["line level only (the property says so); match_Comment / match_Empty of the Markdown matcher are outside the property", "title / step text <= 1 symbolic char (quick) / 2; tag names <= 2 chars",
               "quick: dialect en (+ fr titles); thorough: 6 dialects - the remaining dialects are outside the explored bound of this check (their keyword tables are covered for the classic matcher by C05)"]
M = "harness.md"
DIALECTS_T = ["en", "fr", "ht", "ja", "ar", "ru"]


def bounds(tier):
    return {"quick": "every title / step keyword of the 36 dialects selected by keyword-data properties (non-NFC, space-less, prefix pairs, RTL, punctuation) at depth 2/6 resp. 3 bullets with a plain text (thorough: all 80); dialect en: every other pair of title keywords x depth 0..7 x separator x title<=1 x 2 roles; every step keyword x 5 bullets x gap x text<=1; table indentation 0..8; two tags",
            "thorough": "6 dialects (en with title / text <= 2)"}[tier]


def conditions(tier):
    q = tier == "quick"
    table = json.load(open(os.path.join(runner.REPO, "gherkin-languages.json"), encoding="utf-8"))
    cs = []
    for d in (["en"] if q else DIALECTS_T):
        nt = len({(c, k) for c in ("feature", "rule", "background", "scenario", "scenarioOutline", "examples") for k in table[d][c]})
        ns = sum(len(table[d][c]) for c in ("given", "when", "then", "and", "but"))
        for lo in range(0, nt, 4 if q else 2):
            cs.append(Cond(M, "title_line", {"dialect": d, "lo": lo, "hi": lo + 2, "maxlen": 2 if (not q and d == "en") else 1, "ind": "" if lo % 4 else " "}, T=1200 if q else 4000, reach=["recognised"]))
        for lo in range(0, ns, 6 if q else 3):
            cs.append(Cond(M, "step_line", {"dialect": d, "lo": lo, "hi": lo + 3, "maxlen": 2 if (not q and d == "en") else 1}, T=1200 if q else 4000, reach=["recognised"]))
    from . import _l
    names, why = _l.interesting_dialects(table)
    for d in (names if q else sorted(table)):
        cs.append(Cond(M, "title_cheap", {"dialect": d}, T=600, label="md.title_cheap[%s]" % d))
        cs.append(Cond(M, "step_cheap", {"dialect": d}, T=600, label="md.step_cheap[%s]" % d))
    if q:
        cs.append(Cond(M, "title_line", {"dialect": "en", "lo": 2, "hi": 3, "maxlen": 2}, T=1200, reach=["recognised"]))
        cs.append(Cond(M, "step_line", {"dialect": "en", "lo": 1, "hi": 2, "maxlen": 2}, T=1200, reach=["recognised"]))
    for b in ("x", "-", ":--:", ""):
        cs.append(Cond(M, "table_row", {"b": b, "maxlen": 2}, T=1200, reach=["recognised"] if b in ("x", "") else []))
    cs.append(Cond(M, "tag_line", T=1200))
    cs.append(Cond(M, "no_tags", T=300))
    cs.append(Cond(M, "twin_never_title", T=60, expect="cex"))
    return cs
