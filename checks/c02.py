import time

from kit import extract, pmodel, berp
from kit.runner import Cond
from . import _p

LEVEL = "model_checking"
FUNCTIONS = ["gherkin.parser.Parser.match_token_at_0..42 (translated to z3 from the AST; also executed unchanged under CrossHair)",
             "Parser.lookahead_0/1, read_token, match_token, parse, handle_external_error, add_error (executed unchanged under CrossHair)",
             "gherkin.ast_builder.AstBuilder (real builder behind the recording subclass)",
             "sibling tables: java/Parser.java, go/parser.go, ruby/parser.rb, c/parser.c, javascript/Parser.ts"]
EXPLANATION = ("Engine P: the generated state machine is translated from parser.py's AST into z3 and (1) proved equal to the tables of the five "
               "sibling generated parsers on every state x 2^14 match vectors x 4 look-ahead outcomes, (2) proved bisimilar (inductive step, any "
               "document length) to the LL automaton this framework derives from gherkin.berp. Engine X: the REAL Parser+AstBuilder run under "
               "CrossHair on a prefix into every grammar configuration followed by K symbolic line kinds (17 abstract kinds incl. raising tag/"
               "language lines, both doc-string delimiters, rows of two widths) and must agree with the specification-level parser on accept/"
               "reject, builder events (nesting), errors and delivered tokens")
ASSUMPTIONS = ["the real TokenMatcher satisfies the matcher contract MC1-MC6 (decided by the line-level checks of C01/C05/C13)",
               "kit.berp is this framework's reading of the berp grammar semantics (berp itself is not in the image); it is cross-checked by agreeing with six generated parsers",
               "Engine X bound: K symbolic lines after each prefix; longer documents are covered by the inductive z3 queries only at table level"]


def bounds(tier):
    return {"quick": "z3: all 42 states x 2^14 vectors x 4 look-ahead outcomes (unbounded length by induction); CrossHair: 120 prefixes x K=1 symbolic line (K=2 after every 8th pending-tag prefix), 17 kinds",
            "thorough": "z3 as quick; CrossHair: 120 prefixes x K=2 (K=3 after every 8th pending-tag prefix)"}[tier]


def solver_part(tier):
    t0 = time.time()
    try:
        T = _p.tables()
    except extract.Untranslatable as e:
        return _p.untranslatable("C02", e)
    res = []
    herr = []
    for lang in extract.SIBLINGS:
        sib = extract.sibling_tables(lang)
        if len(sib) != 42 or sum(len(v["trans"]) for v in sib.values()) < 300:
            herr.append("sibling extractor failed for " + lang)
            continue
        pmodel.q_sibling_equal(T["states"], sib, lang, res)
    cfg = berp.build()
    rec, rel = pmodel.q_bisimulation(T["states"], cfg, res)
    pmodel.q_closed(T["states"], res)
    pmodel.q_lookaheads(T["lookaheads"], res, cfg)
    val = _p.validate_translation(T)
    if val.get("error") or val.get("disagreements", 1) != 0:
        herr.append("translation validation failed: %r" % (val,))
    ntr = sum(len(s["trans"]) for s in T["states"].values())
    cov = {"states": len(T["states"]) + 1, "transitions": ntr, "traces_validated_against_impl": val.get("traces", 0),
           "translation_validation": val, "grammar_configurations": len(cfg), "bisimulation_pairs": len(rel),
           "lookaheads": T["lookaheads"], "driver": T["driver"]}
    return _p.finish("C02", res, t0, cov, harness_errors=herr)


def conditions(tier):
    if tier == "quick":
        cs = _p.pdrv_conditions(k_all=1, k_tags=2, stop_too=False, tag_stride=8)
    else:
        cs = _p.pdrv_conditions(k_all=2, k_tags=3, k_tags_rest=2, tag_stride=8, stop_too=False)
    # acceptance must not depend on what the same matcher saw in an earlier document: after reset() the doc-string state is the initial one
    for hist in ([["open", '"""'], ["reset"]], [["open", "   ```"], ["touch", "x"], ["reset"]], [["lang", "fr"], ["open", '"""'], ["reset"]]):
        for kind, head in (("DocStringSeparator", "```"), ("DocStringSeparator", '"""')):
            cs.append(Cond("harness.line", "line_after_history", {"kind": kind, "head": head, "history": hist, "maxlen": 1, "maxind": 1}, T=600,
                           label="line.after_history[%s head=%r after %s]" % (kind, head, hist[0])))
    cs.append(Cond("harness.pdrv", "twin_never_accepts", {"prefix": [4]}, T=120, expect="cex"))
    cs.append(Cond("harness.pdrv", "twin_never_rejects", {"prefix": [4]}, T=120, expect="cex"))
    return cs
