from kit.runner import Cond
from . import _d, _c

LEVEL = "other"
FUNCTIONS = _d.FUNCTIONS + _c.FUNCTIONS + ["gherkin.stream.gherkin_events.GherkinEvents.enum"]
EXPLANATION = ("AST side: the REAL parser/builder on the rendered document families with symbolic text; the expected AST carries the canonical numbering "
               "(children before parent; rows, steps, examples, tags, then the node) counted by the writer from the generator's start value, and the "
               "generator must end at start + number of nodes (dense). Offset: the generator's counter starts at a solver-chosen n0 (0..9 above three "
               "bases incl. digit-count boundaries) - one inductive step over the history of a stream. Pickle side: the REAL compiler over the symbolic "
               "AST family; pickle-step ids before their pickle's id, every astNodeIds / astNodeId resolves to a node of the right kind. Stream: ids "
               "pairwise distinct across accepted and rejected sources of one stream")
ASSUMPTIONS = _c.ASSUMPTIONS + ["canonical order additionally validated on the acceptance corpus during development (41/41 golden ASTs and pickles reproduce)",
                                "history offset n0 symbolic only within 0..9 above the bases 0, 95 and 999995 (str() of an unbounded symbolic int does not terminate in CrossHair); the code never reads the counter except in IdGenerator.get_next_id"]


def bounds(tier):
    return {"quick": "document families x start ids {0, 37}; offsets n0 in 0..9 + {0, 95, 999995}; compiler family contexts rules (single) + feature (history); stream 4 ordered triples subsets",
            "thorough": "all families x 2 line ends x start ids {0, 37, 1000}; all compiler contexts incl. histories"}[tier]


def conditions(tier):
    q = tier == "quick"
    cs = _d.doc_conditions(tier, shapes=("titles", "steps", "outline") if q else ("titles", "steps", "docstring", "description", "outline"), start=37)
    cs += _d.doc_conditions(tier, shapes=("docstring", "outline"), start=0)
    for sh in ("outline", "steps", "docstring"):
        for base in (0, 95, 999995):
            cs.append(Cond(_d.M, "ids_from_any_counter", {"shape": sh, "base": base}, T=600))
    cs += _c.shape_conditions("compile_agrees", "c11", ["rules"] if q else ["feature", "rule1", "rules"])
    cs += _c.shape_conditions("compile_history", "c11", ["feature"] if q else ["feature", "rule1", "rules"], T=1200)
    for s1 in ((1, 2) if q else (0, 1, 2, 3)):
        cs.append(Cond("harness.stream", "stream_agrees", {"fix": {"s1": s1, "ps": False}}, T=900, reach=["accepted", "rejected"]))
    cs += _c.source_level(tier)
    cs.append(Cond(_d.M, "twin_never_parses", {"shape": "steps"}, T=120, expect="cex"))
    return cs
