"""shared condition builders for the pickle-compiler checks"""
from kit.runner import Cond

M = "harness.compile"
FUNCTIONS = ["gherkin.pickles.compiler.Compiler.compile", "_compile_rule", "_compile_scenario", "_compile_scenario_outline",
             "_pickle_step", "_create_pickle_arguments", "_interpolate", "_pickle_tags", "gherkin.stream.id_generator.IdGenerator"]
ASSUMPTIONS = ["the AST family of kit.astgen has the shape the parser returns (validated against the parsed acceptance corpus: the reference compiler reproduces all 41 golden pickle files)",
               "shapes: <= 2 rules, <= 2 scenario slots per container (6 slot types incl. step-less scenarios, outlines with table-less / header-only / multi-row examples), backgrounds with 0-2 steps at both levels; larger documents are outside the claim"]


def source_level(tier):
    """pickles against what the SOURCE says: the REAL parser + builder + compiler from every grammar configuration (line-kind level,
    prefix + K symbolic lines) against the reference AST built from the grammar derivation and the reference compiler"""
    from . import _p
    return _p.pdrv_conditions(k_all=1, k_tags=1, stop_too=False) if tier == "quick" else _p.pdrv_conditions(k_all=2, k_tags=2, stop_too=False)[::3]


def shape_conditions(fn, clause, ctxs, split="a", T=600, reach=("two-pickles",)):
    cs = []
    for ctx in ctxs:
        vals = range(7) if split in ("a", "b") else range(4)
        for v in vals:
            cs.append(Cond(M, fn, {"ctx": ctx, "clause": clause, "fix": {split: v}}, T=T,
                           reach=list(reach) if v in (2, 3, 4) else [],
                           label="compile.%s[%s,%s,%s=%d]" % (fn, clause, ctx, split, v)))
    return cs
