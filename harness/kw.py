"""C05 — every keyword of every dialect in its role (one condition per dialect), as default dialect,
through a '# language:' header, and on a matcher with a history (C15 / C10: reused matchers)."""
import kit.sym as sym  # noqa
from kit.sym import pick, param

from kit import linespec
from kit.linespec import State
from harness.line import agrees, _blank

D = param("dialect", "en")
MODE = param("mode", "default")   # default | header | history
OTHER = param("other", "fr")      # a different dialect used as configured default / earlier document
MAXLEN = param("maxlen", 1)
ROLES = ["FeatureLine", "RuleLine", "BackgroundLine", "ScenarioLine", "ExamplesLine", "StepLine"]
CATS = ["feature", "rule", "background", "scenario", "scenarioOutline", "examples", "given", "when", "then", "and", "but"]
TITLE = {"feature", "rule", "background", "scenario", "scenarioOutline", "examples"}

_T = linespec.master_table()
KEYWORDS = []
if param("steps_only", False):
    CATS = ["given", "when", "then", "and", "but"]
    ROLES = ["StepLine"]
for _c in CATS:
    for _k in _T[D][_c]:
        if (_c, _k) not in KEYWORDS:
            KEYWORDS.append((_c, _k))
FOREIGN = param("foreign", [])    # keywords of other dialects (concrete list chosen by the runner)


def _state():
    if MODE == "default":
        return State(D)
    if MODE == "header":
        return State(default=OTHER, history=[("touchstep",), ("lang", D)])
    if MODE == "history":
        # an earlier document switched to OTHER, a new parse starts, then this document's header (or none if D is the default)
        return State(default=D, history=[("touch", "Given x"), ("touchstep",), ("lang", OTHER), ("touch", "zzz"), ("touchstep",), ("touch", "@t"), ("reset",)])
    if MODE == "history2":
        return State(default=OTHER, history=[("touch", "x"), ("touchstep",), ("lang", D), ("touch", "y"), ("touchstep",), ("reset",), ("touch", "| a |"), ("touchstep",), ("lang", D)])
    if MODE == "dirty":
        # the previous document switched dialect AND ended inside an indented doc string; a new parse starts
        return State(default=D, history=[("lang", OTHER), ("touch", "x"), ("open", '      """'), ("touch", "y"), ("reset",)])
    if MODE == "badheader":
        # the previous document had a header naming an unknown dialect (it was rejected); a new parse starts
        return State(default=D, history=[("touch", "x"), ("langbad", "zz-nope"), ("touch", "y"), ("reset",)])
    if MODE == "badheader-same-doc":
        # collecting mode carries on after the unknown-dialect header: the default dialect stays in force in the same document
        return State(default=D, history=[("langbad", "zz-nope")])
    if MODE == "badheader-after-switch":
        # a valid header switched to OTHER, then an unknown one: OTHER stays in force until the next parse; then the default again
        return State(default=D, history=[("lang", OTHER), ("langbad", "zz-nope"), ("reset",)])
    if MODE == "same":
        # a header naming the dialect that is already in force
        return State(default=D, history=[("touch", "x"), ("lang", D)])
    raise ValueError(MODE)


LO = param("lo", 0)
HI = param("hi", 10 ** 6)
IND = param("ind", "")


def keyword_in_role(i: int, rest: str, colon: bool) -> bool:
    """
    pre: 0 <= i < len(KEYWORDS) and LO <= i < HI
    pre: len(rest) <= MAXLEN and chr(10) not in rest
    post: _
    """
    cat, kw = pick(i, KEYWORDS)
    line = IND + kw + (":" if colon else "") + rest + "\n"
    st = _state()
    for role in ROLES:
        if not agrees(role, line, st):
            return False
    if colon == (cat in TITLE):
        sym.reach("in-role")
    return True


def foreign_keyword(i: int, rest: str, colon: bool) -> bool:
    """
    pre: 0 <= i < len(FOREIGN)
    pre: len(rest) <= MAXLEN and chr(10) not in rest
    post: _
    """
    kw = pick(i, FOREIGN)
    line = kw + (":" if colon else "") + rest + "\n"
    st = _state()
    for role in ROLES:
        if not agrees(role, line, st):
            return False
    return True


def twin_never_recognised(i: int) -> bool:
    """
    pre: 0 <= i < len(KEYWORDS)
    post: _
    """
    from harness.line import run_match
    cat, kw = pick(i, KEYWORDS)
    line = kw + ":" + " x\n"
    return all(run_match(r, line, State(D))[0] != ("ret", True) for r in ROLES)


NAMES = param("names", ["en", "zz"])


def _not_namechar(w, slot):
    """in the two gaps that touch the dialect name the symbolic character must not extend the name (the name is kept
    concrete: a symbolic dictionary key makes CrossHair fork over all 80 dialects)"""
    if slot < 3:
        return True
    return all(not (("a" <= c <= "z") or ("A" <= c <= "Z") or c == "-" or c == "_") for c in w)


SLOTS = param("slots", [0, 1])
TERM = param("term", "\n")


def language_header(u: str, v: str, n: int) -> bool:
    """
    pre: len(u) <= 1 and len(v) <= 1
    pre: chr(10) not in u + v
    pre: 0 <= n < len(NAMES)
    pre: _not_namechar(u, SLOTS[0]) and _not_namechar(v, SLOTS[1])
    post: _
    """
    # header spellings: two symbolic characters (blank or not) placed in two of the five gaps of the header
    w = ["", "", "", "", ""]
    w[SLOTS[0]] = u
    w[SLOTS[1]] = v
    line = w[0] + "#" + w[1] + "language" + w[2] + ":" + w[3] + pick(n, NAMES) + w[4] + TERM
    return agrees("Language", line, State(D))
