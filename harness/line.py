"""Line-level harnesses on the REAL TokenMatcher / GherkinLine / Token / errors:
one symbolic source line (any Unicode, any terminator), arbitrary matcher state, against the
reference semantics of kit.linespec.  Serves C01(a) (totality, matcher contract), C03/C04
(text and columns), C12, C13, C14 (tag / language errors), C16 (layout relations), C05.
"""
import kit.sym as sym  # noqa (first)
from kit.sym import pick, param

from gherkin.gherkin_line import GherkinLine
from gherkin.token import Token
from gherkin.token_matcher import TokenMatcher
from gherkin.errors import ParserException, NoSuchLanguageException
from kit import linespec
from kit.linespec import State

KINDS = ["Empty", "Comment", "TagLine", "FeatureLine", "RuleLine", "BackgroundLine", "ScenarioLine",
         "ExamplesLine", "StepLine", "DocStringSeparator", "TableRow", "Language", "Other"]
KIND = param("kind", "Other")
DIALECT = param("dialect", "en")
MAXLEN = param("maxlen", 3)
MAXIND = param("maxind", 1)
HEADS = param("heads", [""])
HEAD = param("head", "")
TERM = param("term", "\n")
ACT = param("act", None)
ITR = param("itr", 0)
TERMS = ["", "\n", "\r\n"]
ACTIVES = [None, '"""', "```"]


def mk(line, st, line_no=1):
    tm = TokenMatcher(st.default)
    cur = st.default
    for op in st.history:
        if op[0] == "lang":
            tm.match_Language(Token(GherkinLine("# language: " + op[1] + chr(10), 1), {"line": 1}))
            cur = op[1]
        elif op[0] == "langbad":
            # an earlier line was a '# language:' header naming an UNKNOWN dialect: the matcher raises and the dialect in force stays
            try:
                tm.match_Language(Token(GherkinLine("# language: " + op[1] + chr(10), 1), {"line": 1}))
            except ParserException:
                pass
        elif op[0] == "touchstep":
            # an earlier document had a step line written in the dialect then in force (lazily built per-dialect tables get built)
            kw = linespec.master_table()[cur]["given"][-1]
            tm.match_StepLine(Token(GherkinLine("  " + kw + "something" + chr(10), 1), {"line": 1}))
        elif op[0] == "open":
            # an earlier document ended inside a doc string opened by this (indented) delimiter line
            tm.match_DocStringSeparator(Token(GherkinLine(op[1] + chr(10), 1), {"line": 1}))
        elif op[0] == "touch":
            # an earlier document had ordinary lines: every matcher has been asked at least once in the current state
            for k in KINDS:
                if k not in ("Language", "DocStringSeparator"):
                    try:
                        getattr(tm, "match_" + k)(Token(GherkinLine(op[1] + chr(10), 1), {"line": 1}))
                    except ParserException:
                        pass
        else:
            tm.reset()
            cur = st.default
    if not st.history:
        # a state given directly (no history): put the matcher into it; with a history the matcher is left exactly as the history left it
        tm._active_doc_string_separator = st.active
        tm._indent_to_remove = st.indent_to_remove
    tok = Token(GherkinLine(line, line_no), {"line": line_no})
    return tm, tok


def token_fields(tok):
    return {
        "type": getattr(tok, "matched_type", "<unset>"),
        "indent": getattr(tok, "matched_indent", "<unset>"),
        "text": getattr(tok, "matched_text", "<unset>"),
        "keyword": getattr(tok, "matched_keyword", "<unset>"),
        "keyword_type": getattr(tok, "matched_keyword_type", "<unset>"),
        "items": getattr(tok, "matched_items", "<unset>"),
        "dialect": getattr(tok, "matched_gherkin_dialect", "<unset>"),
        "location": dict(tok.location),
    }


def run_match(kind, line, st, line_no=1):
    """-> (outcome, token fields, matcher state after)"""
    tm, tok = mk(line, st, line_no)
    try:
        r = getattr(tm, "match_" + kind)(tok)
        out = ("ret", r)
    except ParserException as e:
        out = ("raise", type(e).__name__, e.location.get("line"), e.location.get("column"), str(e))
    return out, token_fields(tok), (tm._active_doc_string_separator, tm._indent_to_remove, tm.dialect_name)


def agrees(kind, line, st, line_no=1):
    """True iff match_<kind> on `line` behaves as kit.linespec.expect says."""
    exp = linespec.expect(kind, line, st, line_no)
    out, f, after = run_match(kind, line, st, line_no)
    before = (st.active if not (st.history and st.history[-1][0] == "reset") else None,
              st.indent_to_remove if not (st.history and st.history[-1][0] == "reset") else 0, st.dialect)
    if exp is None:
        sym.reach("no-match")
        # must answer False and leave token and matcher untouched
        return out == ("ret", False) and f["type"] == "<unset>" and f["location"] == {"line": line_no} and after == before
    if isinstance(exp, tuple):
        sym.reach("raises")
        if out[0] != "raise" or out[1] != exp[1] or out[2] != exp[2] or out[3] != exp[3]:
            return False
        # C14: the message starts with its own (line:column) position
        if not out[4].startswith("(%d:%d): " % (exp[2], exp[3])):
            return False
        return after == before
    sym.reach("match")
    if out != ("ret", True):
        return False
    if f["type"] != exp["type"] or f["indent"] != exp["indent"] or f["location"] != {"line": line_no, "column": exp["column"]}:
        return False
    if f["text"] != exp["text"] or f["keyword"] != exp["keyword"] or f["keyword_type"] != exp["keyword_type"]:
        return False
    if f["items"] != [{"column": c, "text": t} for (c, t) in exp["items"]]:
        return False
    if kind != "Language" and f["dialect"] != exp["dialect"]:
        return False
    want_after = (exp.get("active2", st.active) if "active2" in exp else st.active,
                  exp.get("itr2", st.indent_to_remove) if "itr2" in exp else st.indent_to_remove,
                  exp.get("dialect2", st.dialect))
    return after == want_after


def _blank(s):
    return all(c.isspace() and c != chr(10) for c in s)


def _state(act, itr):
    return State(DIALECT, pick(act, ACTIVES), itr)


def free_line(line: str, act: int, itr: int) -> bool:
    """
    pre: len(line) <= MAXLEN
    pre: chr(10) not in line[:-1]
    pre: 0 <= act < 3 and 0 <= itr <= 2
    post: _
    """
    return agrees(KIND, line, _state(act, itr))


def line1(ind: str, rest: str) -> bool:
    """
    pre: len(ind) <= MAXIND and _blank(ind)
    pre: len(rest) <= MAXLEN and chr(10) not in rest
    post: _
    """
    # one concrete head / terminator / matcher state per condition (fan-out by the runner),
    # symbolic indentation and symbolic remainder of the line
    return agrees(KIND, ind + HEAD + rest + TERM, State(DIALECT, ACT, ITR))


def free1(line: str) -> bool:
    """
    pre: len(line) <= MAXLEN
    pre: chr(10) not in line
    post: _
    """
    return agrees(KIND, line + TERM, State(DIALECT, ACT, ITR))


def templ_line(ind: str, h: int, rest: str, term: int, act: int, itr: int) -> bool:
    """
    pre: len(ind) <= MAXIND and _blank(ind)
    pre: 0 <= h < len(HEADS) and 0 <= term < 3
    pre: len(rest) <= MAXLEN and chr(10) not in rest
    pre: 0 <= act < 3 and 0 <= itr <= 2
    post: _
    """
    line = ind + pick(h, HEADS) + rest + pick(term, TERMS)
    return agrees(KIND, line, _state(act, itr))


def twin_never_matches(ind: str, h: int, rest: str) -> bool:
    """
    pre: len(ind) <= 1 and _blank(ind)
    pre: 0 <= h < len(HEADS)
    pre: len(rest) <= 2 and chr(10) not in rest
    post: _
    """
    line = ind + pick(h, HEADS) + rest
    out, f, after = run_match(KIND, line, State(DIALECT))
    return out != ("ret", True)


def twin_never_raises(rest: str) -> bool:
    """
    pre: len(rest) <= 3 and chr(10) not in rest
    post: _
    """
    line = pick(0, HEADS) + rest
    out, f, after = run_match(KIND, line, State(DIALECT))
    return out[0] != "raise"


EXCL = ["Empty", "Comment", "TagLine", "TableRow", "DocStringSeparator", "FeatureLine", "RuleLine",
        "BackgroundLine", "ScenarioLine", "ExamplesLine", "StepLine"]


def contract(ind: str, h: int, rest: str, term: int, act: int) -> bool:
    """
    pre: len(ind) <= MAXIND and _blank(ind)
    pre: 0 <= h < len(HEADS) and 0 <= term < 3
    pre: len(rest) <= MAXLEN and chr(10) not in rest
    pre: 0 <= act < 3
    post: _
    """
    # MC1-MC3: every matcher answers a bool or raises ParserException (only TagLine / Language may raise),
    # at most one own kind matches (a language header is also a comment), Other always matches,
    # and asking twice gives the same answer and the same token.
    line = ind + pick(h, HEADS) + rest + pick(term, TERMS)
    st = State(DIALECT, pick(act, ACTIVES), 0)
    n_true = 0
    lang = False
    comment = False
    for k in EXCL + ["Language", "Other"]:
        out, f, after = run_match(k, line, st)
        if out[0] == "raise":
            if k not in ("TagLine", "Language"):
                return False
            continue
        if out[1] is not True and out[1] is not False:
            return False
        if k == "Other":
            if out[1] is not True:
                return False
            continue
        if k == "Language":
            lang = out[1]
            continue
        if k == "Comment":
            comment = out[1]
        if out[1]:
            n_true += 1
        # repeatability (look-ahead and the main loop both match a token)
        if k != "DocStringSeparator":
            tm, tok = mk(line, st)
            r1 = getattr(tm, "match_" + k)(tok) if out[0] != "raise" else None
            f1 = token_fields(tok)
            r2 = getattr(tm, "match_" + k)(tok)
            if r1 != r2 or token_fields(tok) != f1:
                return False
    if n_true > 1:
        return False
    if lang and not comment:
        return False
    return True


def contract_free(line: str, act: int) -> bool:
    """
    pre: len(line) <= MAXLEN
    pre: chr(10) not in line[:-1]
    pre: 0 <= act < 3
    post: _
    """
    st = State(DIALECT, pick(act, ACTIVES), 0)
    n_true = 0
    for k in EXCL:
        out, f, after = run_match(k, line, st)
        if out[0] == "raise":
            if k != "TagLine":
                return False
            continue
        if out[1]:
            n_true += 1
    out, f, after = run_match("Other", line, st)
    return n_true <= 1 and out == ("ret", True)


HISTORY = param("history", [])


def line_after_history(ind: str, rest: str) -> bool:
    """
    pre: len(ind) <= MAXIND and _blank(ind)
    pre: len(rest) <= MAXLEN and chr(10) not in rest
    post: _
    """
    # C15: the matcher has a history (dialect switches, a doc string left open, ...) ending with the start of a new parse
    st = State(default=DIALECT, history=[tuple(op) for op in HISTORY])
    return agrees(KIND, ind + HEAD + rest + TERM, st)
