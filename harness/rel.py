"""C16 — layout relations on ONE line through the REAL matcher: line terminator, trailing blanks, extra indentation."""
import kit.sym as sym  # noqa
from kit.sym import pick, param

from kit.linespec import State
from harness.line import run_match, _blank

KIND = param("kind", "StepLine")
HEAD = param("head", "Given ")
ACT = param("act", None)
ITR = param("itr", 0)
MAXLEN = param("maxlen", 2)
DIALECT = param("dialect", "en")


def _no_cr_lf(s):
    return chr(10) not in s and chr(13) not in s


def _shift(f, d):
    """expected token fields after indenting the line by d more blanks: only columns move"""
    g = dict(f)
    if g["type"] in ("Comment", "Empty", "Other", "<unset>"):
        return g
    g["indent"] = f["indent"] + d
    g["location"] = dict(f["location"])
    if "column" in g["location"]:
        g["location"]["column"] += d
    g["items"] = [{"column": it["column"] + d, "text": it["text"]} for it in f["items"]]
    return g


def terminator_neutral(ind: str, rest: str) -> bool:
    """
    pre: len(ind) <= 1 and _blank(ind) and _no_cr_lf(ind)
    pre: len(rest) <= MAXLEN and _no_cr_lf(rest)
    post: _
    """
    # CRLF instead of LF, and presence or absence of a final line break, change nothing in the token
    base = ind + HEAD + rest
    st = State(DIALECT, ACT, ITR)
    a = run_match(KIND, base + "\n", st)
    b = run_match(KIND, base + "\r\n", st)
    c = run_match(KIND, base, st)
    if a[0][0] == "ret" and a[0][1]:
        sym.reach("match")
    return a == b and a == c


def trailing_blanks_neutral(ind: str, rest: str, pad: str) -> bool:
    """
    pre: len(ind) <= 1 and _blank(ind) and _no_cr_lf(ind)
    pre: len(rest) <= MAXLEN and _no_cr_lf(rest)
    pre: 1 <= len(pad) <= 2 and _blank(pad) and _no_cr_lf(pad)
    post: _
    """
    # trailing blanks on keyword, step, tag, table-row and doc-string-delimiter lines change nothing
    base = ind + HEAD + rest
    st = State(DIALECT, ACT, ITR)
    a = run_match(KIND, base + "\n", st)
    b = run_match(KIND, base + pad + "\n", st)
    if a[0][0] == "ret" and a[0][1]:
        sym.reach("match")
    if a[0] == ("ret", False) or a[0][0] == "raise":
        return True  # the relation is stated for lines of that kind only (a raise may move with the text)
    return a == b


def indentation_shifts_columns(ind: str, rest: str, extra: str) -> bool:
    """
    pre: len(ind) <= 1 and _blank(ind) and _no_cr_lf(ind)
    pre: len(rest) <= MAXLEN and _no_cr_lf(rest)
    pre: 1 <= len(extra) <= 2 and _blank(extra) and _no_cr_lf(extra)
    post: _
    """
    # indenting a line further changes only columns (by exactly the number of characters added)
    base = HEAD + rest + "\n"
    st = State(DIALECT, ACT, ITR)
    a = run_match(KIND, ind + base, st)
    b = run_match(KIND, extra + ind + base, st)
    d = len(extra)
    if a[0] == ("ret", True):
        sym.reach("match")
        if KIND == "DocStringSeparator" and ACT is None:
            # opening delimiter: the matcher remembers the delimiter's own indentation
            return b[0] == a[0] and b[1] == _shift(a[1], d) and b[2] == (a[2][0], a[2][1] + d, a[2][2])
        return b[0] == a[0] and b[1] == _shift(a[1], d) and b[2] == a[2]
    if a[0][0] == "raise":
        return b[0][0] == "raise" and b[0][1] == a[0][1] and b[0][2] == a[0][2] and b[0][3] == a[0][3] + d
    return b[0] == a[0] and b[2] == a[2]


def docstring_block_moves(ind: str, content: str, extra: str) -> bool:
    """
    pre: len(ind) <= 2 and _blank(ind) and _no_cr_lf(ind)
    pre: len(content) <= MAXLEN and _no_cr_lf(content)
    pre: 1 <= len(extra) <= 2 and _blank(extra) and _no_cr_lf(extra)
    post: _
    """
    # a doc string moving as one block: the content reported for a content line is unchanged
    sep = HEAD
    a = run_match("Other", ind + content + "\n", State(DIALECT, sep, len(ind)))
    b = run_match("Other", extra + ind + content + "\n", State(DIALECT, sep, len(ind) + len(extra)))
    return a[0] == b[0] and a[1]["text"] == b[1]["text"]


def twin_indent_irrelevant(rest: str) -> bool:
    """
    pre: len(rest) <= 2 and _no_cr_lf(rest)
    post: _
    """
    st = State(DIALECT, None, 0)
    a = run_match("StepLine", "Given " + rest + "\n", st)
    b = run_match("StepLine", " Given " + rest + "\n", st)
    return a == b
