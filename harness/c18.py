"""C18 — token listing format and scanner contract (line numbering, single EOF)."""
import kit.sym as sym  # noqa
from kit.sym import pick

from gherkin.token import Token
from gherkin.gherkin_line import GherkinLine
from gherkin.token_formatter_builder import TokenFormatterBuilder
from gherkin.token_scanner import TokenScanner

TYPES = ["FeatureLine", "StepLine", "TagLine", "TableRow", "Comment", "Empty", "Other", "DocStringSeparator", "Language"]


def _tok(line_no, col, ti, kw, kt, text, n_items, c1, t1, c2, t2):
    tok = Token(GherkinLine("x", line_no), {"line": line_no, "column": col})
    tok.matched_type = pick(ti, TYPES)
    tok.matched_keyword = kw if kw != "" else None
    tok.matched_keyword_type = kt if kt != "" else None
    tok.matched_text = text
    tok.matched_items = [{"column": c1, "text": t1}, {"column": c2, "text": t2}][:n_items]
    return tok


def _expected(line_no, col, ti, kw, kt, text, n_items, c1, t1, c2, t2):
    """documented listing format: (line:col)Type:(keyword type)keyword/text/col:item,col:item"""
    s = "(" + str(line_no) + ":" + str(col) + ")" + TYPES[ti] + ":"
    if kw != "":
        s += "(" + kt + ")" + kw
    s += "/" + text + "/"
    items = [(c1, t1), (c2, t2)][:n_items]
    s += ",".join(str(c) + ":" + t for (c, t) in items)
    return s


def format_token(ti: int, kw: str, kt: str, text: str, n_items: int, t1: str) -> bool:
    """
    pre: 0 <= ti < len(TYPES) and 0 <= n_items <= 2
    pre: len(kw) <= 1 and len(kt) <= 1 and len(text) <= 1 and len(t1) <= 1
    post: _
    """
    line_no, col, c1 = sym.param("ints", [7, 13, 5])
    tok = _tok(line_no, col, ti, kw, kt, text, n_items, c1, t1, c1 + 1, "z")
    return TokenFormatterBuilder._format_token(tok) == _expected(line_no, col, ti, kw, kt, text, n_items, c1, t1, c1 + 1, "z")


def twin_format(kw: str, text: str) -> bool:
    """
    pre: len(kw) <= 2 and len(text) <= 2
    post: _
    """
    tok = _tok(1, 1, 0, kw, "", text, 0, 1, "", 1, "")
    return "/" + text + "/" not in TokenFormatterBuilder._format_token(tok) or kw == ""


class StubIO:
    """io object by contract: readline returns the text up to and including the next line feed, '' at the end"""

    def __init__(self, lines):
        self.lines = lines
        self.i = 0

    def readline(self):
        if self.i < len(self.lines):
            self.i += 1
            return self.lines[self.i - 1]
        return ""

    def __iter__(self):
        return self

    def __next__(self):
        line = self.readline()
        if line == "":
            raise StopIteration
        return line

    def close(self):
        pass


def scanner_numbers_lines(a: str, b: str, n: int, extra: int) -> bool:
    """
    pre: len(a) <= 2 and len(b) <= 2 and chr(10) not in a and chr(10) not in b
    pre: 0 <= n <= 2 and 0 <= extra <= 2
    post: _
    """
    lines = [a + "\n", b + "\n"][:n]
    sc = TokenScanner.__new__(TokenScanner)
    sc.io = StubIO(lines)
    sc.line_number = 0
    for i in range(n):
        t = sc.read()
        if t.eof() or t.location != {"line": i + 1} or t.line._line_text != lines[i] or t.line._line_number != i + 1:
            return False
    for j in range(extra + 1):
        t = sc.read()
        if not t.eof() or t.location != {"line": n + 1 + j}:
            return False
    return True


def _ref_lines(text):
    """physical lines: a line ends at a line feed and nowhere else"""
    out = []
    cur = ""
    for ch in text:
        cur += ch
        if ch == "\n":
            out.append(cur)
            cur = ""
    if cur != "":
        out.append(cur)
    return out


def scan_text(text: str) -> bool:
    """
    pre: len(text) <= sym.param("maxlen", 4)
    post: _
    """
    # the REAL TokenScanner on a symbolic source text (io.StringIO / os.path.exists replaced by their documented contracts)
    with sym.scanner_env(False):
        sc = TokenScanner(text)
        lines = _ref_lines(text)
        for i, l in enumerate(lines):
            t = sc.read()
            if t.eof() or t.location != {"line": i + 1} or t.line._line_text != l:
                return False
        for j in range(2):
            t = sc.read()
            if not t.eof() or t.location != {"line": len(lines) + 1 + j}:
                return False
        if len(lines) >= 2:
            sym.reach("two-lines")
        return True


def _cr_only_in_crlf(text):
    for i, ch in enumerate(text):
        if ch == "\r" and not (i + 1 < len(text) and text[i + 1] == "\n"):
            return False
    return True


def file_vs_string(text: str) -> bool:
    """
    pre: len(text) <= sym.param("maxlen", 4)
    pre: _cr_only_in_crlf(text)
    post: _
    """
    # C16: loading the document from a file (text mode, universal newlines) instead of a string feeds the matcher the same
    # lines up to the CRLF -> LF translation of the line end (which the line-level relation shows to be neutral)
    import gherkin.token_scanner as ts
    from kit import pyio
    with sym.scanner_env(False):
        s1 = TokenScanner(text)
        a = []
        while True:
            t = s1.read()
            if t.eof():
                break
            a.append(t.line._line_text)
    opened = []

    def fake_open(path, encoding=None, newline=None):
        opened.append((path, encoding, newline))
        return pyio.StringIO(text, newline=None) if newline is None else pyio.StringIO(text, newline=newline)

    with sym.scanner_env(True):
        ts.open = fake_open
        try:
            s2 = TokenScanner("some/path.feature")
        finally:
            del ts.open
        b = []
        while True:
            t = s2.read()
            if t.eof():
                break
            b.append(t.line._line_text)
    if len(a) != len(b):
        return False
    for x, y in zip(a, b):
        if x.replace("\r\n", "\n") != y:
            return False
    return opened == [("some/path.feature", "utf8", None)]
