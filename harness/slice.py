"""C04 — reading the source line at a reported location gives back the element (keyword, tag name, raw cell)."""
import kit.sym as sym  # noqa
from kit.sym import pick, param

from kit.linespec import State, is_blank
from harness.line import run_match, _blank

KIND = param("kind", "StepLine")
HEAD = param("head", "Given ")
MAXLEN = param("maxlen", 2)
MAXIND = param("maxind", 2)
TERM = param("term", "\n")
EXCLUDE_BLANK_AFTER_AT = param("exclude_at_blank", False)


def _unescape_prefix_ok(raw, value):
    """`raw` is the source from the reported column on: the raw cell runs up to the next unescaped '|'; un-escaping it
    and removing the blanks after it gives the value (the column already points at its first non-blank character)"""
    i = 0
    out = ""
    n = len(raw)
    while i < n and raw[i] != "|":
        c = raw[i]
        if c == "\\" and i + 1 < n:
            d = raw[i + 1]
            if d == "n":
                out += "\n"
            elif d == "|" or d == "\\":
                out += d
            else:
                out += "\\" + d
            i += 2
        else:
            out += c
            i += 1
    if i >= n:
        return False  # no closing pipe
    e = len(out)
    while e > 0 and is_blank(out[e - 1]):
        e -= 1
    return out[:e] == value


def source_slice(ind: str, rest: str) -> bool:
    """
    pre: len(ind) <= MAXIND and _blank(ind)
    pre: len(rest) <= MAXLEN and chr(10) not in rest
    pre: not EXCLUDE_BLANK_AFTER_AT or not _blank_after_at(rest)
    post: _
    """
    line = ind + HEAD + rest + TERM
    out, f, after = run_match(KIND, line, State("en"))
    if out != ("ret", True):
        return True
    sym.reach("match")
    col = f["location"]["column"]
    if col < 1:
        return False
    if KIND == "Comment":
        return col == 1 and line.startswith(f["text"])
    # everything before the reported column is white space
    for ch in line[:col - 1]:
        if not ch.isspace():
            return False
    if KIND == "TagLine":
        for it in f["items"]:
            c = it["column"]
            if line[c - 1] != "@":
                return False
            if line[c - 1:c - 1 + len(it["text"])] != it["text"]:
                return False
        return line[col - 1] == "@"
    if KIND == "TableRow":
        if line[col - 1] != "|":
            return False
        for it in f["items"]:
            c = it["column"]
            if c < 1 or c > len(line):
                return False
            if it["text"] == "":
                # empty cell: the column of the closing '|' (blanks before it skipped)
                if line[c - 1] != "|":
                    return False
            else:
                if is_blank(line[c - 1]):
                    return False
                if not _unescape_prefix_ok(line[c - 1:], it["text"]):
                    return False
        return True
    kw = f["keyword"]
    return line[col - 1:col - 1 + len(kw)] == kw


def _blank_after_at(rest):
    """known finding F6: '@' directly followed by white space"""
    s = HEAD + rest
    for i in range(len(s) - 1):
        if s[i] == "@" and s[i + 1].isspace():
            return True
    return s.endswith("@") and False


def kf_tag_blank_after_at() -> bool:
    """witness of known finding F6 (not a CrossHair condition): '@ a' is reported as tag '@a' at a column where the source reads '@ a'"""
    line = "@ a\n"
    out, f, after = run_match("TagLine", line, State("en"))
    it = f["items"][0]
    return line[it["column"] - 1:it["column"] - 1 + len(it["text"])] == it["text"]


def twin_column_always_one(ind: str) -> bool:
    """
    pre: len(ind) <= 2 and _blank(ind)
    post: _
    """
    out, f, after = run_match(KIND, ind + HEAD + "x" + TERM, State("en"))
    return f["location"].get("column", 1) == 1
