"""C09 — example values replace <header> placeholders literally, everywhere they apply."""
import kit.sym as sym  # noqa
from kit.sym import pick, param

from gherkin.pickles.compiler import Compiler
from gherkin.stream.id_generator import IdGenerator
from kit import astgen
from kit.astgen import Gen

# adversarial alphabet for header cells (regular-expression metacharacters, backslash, '$', group syntax, '<', '>')
ALPHA = ["a", "b", ".", "(", ")", "[", "]", "\\", "$", "^", "*", "+", "?", "|", "{", "}", "<", ">", "1", " "]
HLEN = param("hlen", 1)
VLEN = param("vlen", 2)
TLEN = param("tlen", 4)
H2 = param("h2", "b")     # concrete second header for the two-column harness
FIX = param("fix", {})


def _fix_ok(name, v):
    return name not in FIX or v == FIX[name]


def _cells(vals):
    return [{"location": {"line": 1, "column": 1}, "value": v} for v in vals]


def _hdr(i1, i2):
    h = pick(i1, ALPHA)
    if HLEN >= 2:
        h = h + pick(i2, ALPHA)
    return h


def interpolate_literal(i1: int, i2: int, v: str, t: str) -> bool:
    """
    pre: 0 <= i1 < len(ALPHA) and 0 <= i2 < len(ALPHA)
    pre: _fix_ok("i1", i1) and _fix_ok("i2", i2)
    pre: len(v) <= VLEN and len(t) <= TLEN
    post: _
    """
    h = _hdr(i1, i2)
    got = Compiler()._interpolate(t, _cells([h]), _cells([v]))
    exp = t.replace("<" + h + ">", v)
    if exp != t:
        sym.reach("substituted")
    return got == exp


def interpolate_two_columns(i1: int, v1: str, v2: str, t: str) -> bool:
    """
    pre: 0 <= i1 < len(ALPHA) and _fix_ok("i1", i1)
    pre: len(v1) <= VLEN and len(v2) <= VLEN and len(t) <= TLEN
    post: _
    """
    h1 = pick(i1, ALPHA)
    got = Compiler()._interpolate(t, _cells([h1, H2]), _cells([v1, v2]))
    exp = t.replace("<" + h1 + ">", v1).replace("<" + H2 + ">", v2)
    return got == exp


def twin_never_substitutes(v: str, t: str) -> bool:
    """
    pre: len(v) <= 1 and len(t) <= 3
    post: _
    """
    return Compiler()._interpolate(t, _cells(["a"]), _cells([v])) == t


def through_compile(i1: int, v: str, t: str) -> bool:
    """
    pre: 0 <= i1 < len(ALPHA) and _fix_ok("i1", i1)
    pre: len(v) <= VLEN and len(t) <= TLEN
    post: _
    """
    # the same template in every place the statement lists, and in a background step (which must stay as written)
    h = pick(i1, ALPHA)
    g = Gen(0)
    bg = astgen.finish_background(g, astgen.mk_background(g, [astgen.mk_step(g, "Context", t, 4, 1, (t, "x", "d", "m"))], 3))
    steps = [astgen.mk_step(g, "Action", t, 11, 1, (t, "plain", "d", "m")),
             astgen.mk_step(g, "Outcome", "s " + t, 14, 2, ("c", "c", t, t)),
             astgen.mk_step(g, "Outcome", "u", 17, 2, ("c", "c", "no placeholder here", t)),
             astgen.mk_step(g, "Outcome", "v", 20, 2, ("c", "c", "", "x" + t))]
    ex = [astgen.mk_examples(g, 3, [], [h, "zz"], [[v, "Z"]], 20)]
    sc = astgen.mk_scenario(g, t, [], steps, ex, 10, "Scenario Outline")
    doc = astgen.mk_doc(g, [], [bg, sc])
    idgen = IdGenerator()
    idgen._id_counter = g.n
    ps = Compiler(idgen).compile(doc)
    if len(ps) != 1:
        return False
    p = ps[0]
    e = t.replace("<" + h + ">", v).replace("<zz>", "Z")
    if p["name"] != e:
        return False
    st = p["steps"]
    if len(st) != 5:
        return False
    # media type is substituted whatever the content looks like
    if st[3]["argument"]["docString"] != {"content": "no placeholder here", "mediaType": e}:
        return False
    if st[4]["argument"]["docString"] != {"content": "", "mediaType": "x" + e}:
        return False
    # background step: not substituted
    if st[0]["text"] != t or st[0]["argument"]["dataTable"]["rows"][0]["cells"][0]["value"] != t:
        return False
    if st[1]["text"] != e or st[1]["argument"]["dataTable"]["rows"][0]["cells"][0]["value"] != e:
        return False
    if st[1]["argument"]["dataTable"]["rows"][0]["cells"][1]["value"] != "plain":
        return False
    d = st[2]["argument"]["docString"]
    return st[2]["text"] == "s " + e and d["content"] == e and d["mediaType"] == e


def two_tables(v: str, w: str, t: str) -> bool:
    """
    pre: len(v) <= VLEN and len(w) <= VLEN and len(t) <= TLEN
    post: _
    """
    return _two_tables(v, w, t)


def _two_tables(v, w, t):
    # one outline, two examples tables whose header rows differ (columns swapped) and whose body rows are equal:
    # each row must be substituted with the header of ITS OWN table
    g = Gen(0)
    steps = [astgen.mk_step(g, "Action", t, 11, 1, (t, "k", "d", "m")), astgen.mk_step(g, "Outcome", t + "!", 14, 3, ("c", "c", t, "m"))]
    ex = [astgen.mk_examples(g, 3, [], ["a", "b"], [[v, w]], 20), astgen.mk_examples(g, 3, [], ["b", "a"], [[v, w]], 30)]
    sc = astgen.mk_scenario(g, t, [], steps, ex, 10, "Scenario Outline")
    doc = astgen.mk_doc(g, [], [sc])
    ps = Compiler(IdGenerator()).compile(doc)
    if len(ps) != 2:
        return False
    e1 = t.replace("<a>", v).replace("<b>", w)
    e2 = t.replace("<b>", v).replace("<a>", w)
    for p, e in ((ps[0], e1), (ps[1], e2)):
        if p["name"] != e or p["steps"][0]["text"] != e or p["steps"][1]["text"] != e + "!":
            return False
        if p["steps"][0]["argument"]["dataTable"]["rows"][0]["cells"][0]["value"] != e:
            return False
        if p["steps"][1]["argument"]["docString"]["content"] != e:
            return False
    return True


def two_tables_fixed(flip: bool) -> bool:
    """
    post: _
    """
    # the same arrangement with concrete texts (one path per value of `flip`): cheap even when the code under test keeps
    # per-row state in containers keyed by symbolic strings
    return _two_tables("1", "2", "<b>-<a>" if flip else "x<a>y<b>z")


def two_columns_through_compile(v1: str, v2: str, t: str) -> bool:
    """
    pre: len(v1) <= VLEN and len(v2) <= VLEN and len(t) <= TLEN
    post: _
    """
    # columns are applied in HEADER order (a shorter header before a longer one; a value may spell the other placeholder)
    g = Gen(0)
    steps = [astgen.mk_step(g, "Action", t, 11, 1, (t, "k", "d", "m"))]
    ex = [astgen.mk_examples(g, 3, [], ["a", H2], [[v1, v2]], 20)]
    sc = astgen.mk_scenario(g, t, [], steps, ex, 10, "Scenario Outline")
    ps = Compiler(IdGenerator()).compile(astgen.mk_doc(g, [], [sc]))
    e = t.replace("<a>", v1).replace("<" + H2 + ">", v2)
    return len(ps) == 1 and ps[0]["name"] == e and ps[0]["steps"][0]["text"] == e and \
        ps[0]["steps"][0]["argument"]["dataTable"]["rows"][0]["cells"][0]["value"] == e
