"""Pickle-compiler harnesses (C06, C07, C08, C10, C11 pickle side, C15 purity, C01d).

The REAL gherkin.pickles.compiler.Compiler runs under CrossHair on ASTs of parser shape whose
*shape* is symbolic (slot types, background variants, keyword types chosen by the solver through
comparison chains); the oracle is kit.astgen.ref_compile, written from the property statements.
"""
import copy

import kit.sym as sym  # noqa (first)
from kit.sym import pick, param

from gherkin.pickles.compiler import Compiler
from gherkin.stream.id_generator import IdGenerator
from kit import astgen
from kit.astgen import Gen, KT

VARIANT = param("variant", 0)      # text/argument variant used for the second document of a history
CTX = param("ctx", "feature")      # which two scenario slots are symbolic: feature | rule1 | rules
FILL = param("fill", [2, 3])       # concrete slot types for the non-symbolic slots
START = param("start", 0)
CLAUSE = param("clause", "all")   # which property's fields are compared: all | c06 | c07 | c08 | c10 | c11 | c15
FIX = param("fix", {})            # optional concrete values for some of the symbolic shape parameters


def _fix_ok(name, v):
    return name not in FIX or v == FIX[name]


def project(pickles, clause):
    """keep only the fields the given property talks about"""
    if clause in ("all", "c15"):
        return pickles
    out = []
    for p in pickles:
        if clause == "c06":
            out.append({"astNodeIds": p["astNodeIds"], "name": p["name"], "language": p["language"], "uri": p["uri"],
                        "nsteps_is_zero": len(p["steps"]) == 0})
        elif clause == "c07":
            out.append([{"astNodeIds": s["astNodeIds"], "text": s["text"], "argument": s.get("argument", "<absent>")} for s in p["steps"]])
        elif clause == "c08":
            out.append(p["tags"])
        elif clause == "c10":
            out.append([s["type"] for s in p["steps"]])
        elif clause == "c11":
            out.append({"id": p["id"], "astNodeIds": p["astNodeIds"], "steps": [(s["id"], s["astNodeIds"]) for s in p["steps"]],
                        "tags": [t["astNodeId"] for t in p["tags"]]})
    return out

NSLOT = 7
FTAGS = ["@f", "@d"]
RTAGS = ["@r", "@d"]


def _vt(tags, v):
    """tag names of the second document of a history differ from the first one's (same ids, other names)"""
    return [t + "'" for t in tags] if v else tags


def slot(g, t, line, v, nm):
    """scenario slot types: 0 absent, 1 plain without steps, 2 plain with two steps (doc string argument),
    3 outline: one step, one examples block with one row, 4 outline: two steps with arguments; examples blocks
    [no table], [header only], [two rows] ; 5 outline without steps, one row; 6 outline whose examples rows have no cells"""
    sfx = "'" if v else ""
    if t == 0:
        return []
    if t == 1:
        return [astgen.mk_scenario(g, nm + " <a>" + sfx, ["@s" + sfx], [], [], line)]
    if t == 2:
        steps = [astgen.mk_step(g, "Context", "given <a>" + sfx, line + 1, 2 if not v else 1, ("c<a>", "d", "doc <a>" + sfx, "mt<a>")),
                 astgen.mk_step(g, "Conjunction", "and" + sfx, line + 4, 0)]
        return [astgen.mk_scenario(g, nm + sfx, ["@s", "@f" + sfx], steps, [], line)]
    if t == 3:
        steps = [astgen.mk_step(g, "Action", "when <a> <b> <c>" + sfx, line + 1, 0)]
        ex = [astgen.mk_examples(g, 3, ["@e" + sfx], ["a", "b"], [["1" + sfx, "<a>"]], line + 3)]
        return [astgen.mk_scenario(g, nm + " < <a>|<b> >" + sfx, [], steps, ex, line, "Scenario Outline")]
    if t == 4:
        steps = [astgen.mk_step(g, "Conjunction", "and <a>" + sfx, line + 1, 1 if not v else 3, ("<a>", "x<b>y", "doc <b>" + sfx, "m<a>")),
                 astgen.mk_step(g, "Outcome", "then <b>" + sfx, line + 4, 2 if not v else 0, ("<a>", "<b>", "doc <a><b>", "<b>"))]
        ex = [astgen.mk_examples(g, 1, ["@n"], [], [], line + 7),
              astgen.mk_examples(g, 2, ["@h"], ["a", "b"], [], line + 9),
              astgen.mk_examples(g, 4, ["@e", "@s"], ["b", "a"], [["B1", "A1" + sfx], ["<a>", "A2"]], line + 12, "ex"),
              # an UNTAGGED block after tagged ones: its rows carry no examples tags
              astgen.mk_examples(g, 3, [], ["a", "b"], [["Q" + sfx, "R"]], line + 16)]
        return [astgen.mk_scenario(g, nm + " <b><a>" + sfx, ["@s"], steps, ex, line, "Scenario Outline")]
    if t == 6:
        # an examples table whose rows have no cells at all (a bare '|' per row): header present, two body rows
        steps = [astgen.mk_step(g, "Context", "given" + sfx, line + 1, 0)]
        ex = [astgen.mk_examples(g, 4, ["@z"], [], [[], []], line + 3)]
        return [astgen.mk_scenario(g, nm + sfx, [], steps, ex, line, "Scenario Outline")]
    steps = []
    ex = [astgen.mk_examples(g, 3, [], ["a"], [["only" + sfx]], line + 2)]
    return [astgen.mk_scenario(g, nm + " <a>" + sfx, ["@s"], steps, ex, line, "Scenario Outline")]


def background(g, b, line, v, kts=("Context", "Conjunction")):
    """background variants: 0 none, 1 present without steps, 2 one step, 3 two steps (table argument on the second)"""
    sfx = "'" if v else ""
    if b == 0:
        return []
    steps = []
    if b >= 2:
        steps.append(astgen.mk_step(g, kts[0], "bg <a>" + sfx, line + 1, 0))
    if b >= 3:
        steps.append(astgen.mk_step(g, kts[1], "bg2" + sfx, line + 2, 1 if not v else 4, ("<a>", "t", "d", "m")))
    return [astgen.finish_background(g, astgen.mk_background(g, steps, line))]


def build(fbg, t1, t2, r1bg, t3, t4, r2bg, t5, v=0, start=0):
    g = Gen(start)
    ch = []
    ch += background(g, fbg, 3, v)
    ch += slot(g, t1, 10, v, "s1")
    ch += slot(g, t2, 30, v, "s2")
    if r1bg >= 0:
        rch = background(g, r1bg, 52, v, ("Action", "Conjunction")) + slot(g, t3, 60, v, "s3") + slot(g, t4, 80, v, "s4")
        ch.append(astgen.mk_rule(g, "r1", _vt(RTAGS, v), rch, 50))
    if r2bg >= 0:
        rch = background(g, r2bg, 102, v, ("Outcome", "Unknown")) + slot(g, t5, 110, v, "s5")
        ch.append(astgen.mk_rule(g, "r2", ["@r2"], rch, 100))
    doc = astgen.mk_doc(g, _vt(FTAGS, v), ch, "dir/u.feature", "en")
    return doc, g


def _ctx_doc(a, b, x, y, v):
    """two symbolic slot types a, b and two symbolic background variants x, y placed according to CTX"""
    f0, f1 = FILL[0], FILL[1]
    if CTX == "feature":
        return build(x, a, b, y - 1 if y > 0 else -1, f0, 0, -1, 0, v, START)
    if CTX == "rule1":
        return build(x, f0, 0, y, a, b, -1, 0, v, START)
    return build(x, 0, f1, y, a, f0, 1 if x > 1 else 0, b, v, START)


def check_doc(doc, g, compiler, idgen):
    with sym.untraced():
        before = copy.deepcopy(doc)
    start = idgen._id_counter
    got = compiler.compile(doc)
    with sym.untraced():
        return _verdict(doc, before, start, got, g, idgen)


def _verdict(doc, before, start, got, g, idgen):
    exp = astgen.ref_compile(before, start)
    if not isinstance(got, list):
        return False
    try:
        pg = project(got, CLAUSE)
    except (KeyError, TypeError, IndexError):
        return CLAUSE not in ("all", "c06", "c07")  # malformed pickle: a violation of the structural clauses
    if not astgen.same(pg, project(exp, CLAUSE)):
        return False
    # C15: compiling does not modify the document it is given
    if CLAUSE in ("all", "c15") and not astgen.same(doc, before):
        return False
    if CLAUSE not in ("all", "c11"):
        if len(got) >= 2:
            sym.reach("two-pickles")
        return True
    # C11: every id a pickle mentions resolves to an AST node of the right kind
    for p in got:
        if g.index.get(p["astNodeIds"][0]) != "scenario":
            return False
        if len(p["astNodeIds"]) == 2 and g.index.get(p["astNodeIds"][1]) != "row":
            return False
        for t in p["tags"]:
            if g.index.get(t["astNodeId"]) != "tag":
                return False
        for s in p["steps"]:
            if g.index.get(s["astNodeIds"][0]) != "step":
                return False
            if s["type"] not in ("Unknown", "Context", "Action", "Outcome"):
                return False
    if idgen._id_counter != start + sum(1 + len(p["steps"]) for p in got):
        return False
    if len(got) >= 2:
        sym.reach("two-pickles")
    return True


def compile_agrees(a: int, b: int, x: int, y: int) -> bool:
    """
    pre: 0 <= a < NSLOT and 0 <= b < NSLOT
    pre: 0 <= x <= 3 and 0 <= y <= 3
    pre: _fix_ok("a", a) and _fix_ok("b", b) and _fix_ok("x", x) and _fix_ok("y", y)
    post: _
    """
    doc, g = _ctx_doc(a, b, x, y, 0)
    idgen = IdGenerator()
    idgen._id_counter = g.n
    return check_doc(doc, g, Compiler(idgen), idgen)


def compile_history(a: int, b: int, x: int, y: int) -> bool:
    """
    pre: 0 <= a < NSLOT and 0 <= b < NSLOT
    pre: 0 <= x <= 3 and 0 <= y <= 3
    pre: _fix_ok("a", a) and _fix_ok("b", b) and _fix_ok("x", x) and _fix_ok("y", y)
    post: _
    """
    # one Compiler instance, two documents whose AST ids collide (each parsed with its own fresh generator)
    # but whose texts and step arguments differ; then the first one again
    idgen = IdGenerator()
    comp = Compiler(idgen)
    doc1, g1 = _ctx_doc(a, b, x, y, 0)
    idgen._id_counter = g1.n
    if not check_doc(doc1, g1, comp, idgen):
        return False
    doc2, g2 = _ctx_doc(a, b, x, y, 1)
    if not check_doc(doc2, g2, comp, idgen):
        return False
    doc3, g3 = _ctx_doc(b, a, y, x, 0)
    return check_doc(doc3, g3, comp, idgen)


def twin_never_pickles(a: int, b: int) -> bool:
    """
    pre: 0 <= a < NSLOT and 0 <= b < NSLOT
    post: _
    """
    doc, g = _ctx_doc(a, b, 2, 2, 0)
    return len(Compiler(IdGenerator()).compile(doc)) < 3


# ---------------------------------------------------------------- C10 keyword types

def _kt_doc(k1, k2, k3, k4, k5, nbg, nsc, outline, rule):
    g = Gen(0)
    kts = [pick(k, KT) for k in (k1, k2, k3, k4, k5)]
    bgsteps = [astgen.mk_step(g, kts[i], "b%d" % i, 4 + i) for i in range(nbg)]
    ch = []
    if nbg or True:
        ch += [astgen.finish_background(g, astgen.mk_background(g, bgsteps, 3))]
    steps = [astgen.mk_step(g, kts[2 + i], "s%d <a>" % i, 11 + i) for i in range(nsc)]
    ex = []
    if outline:
        ex = [astgen.mk_examples(g, 4, [], ["a"], [["1"], ["2"]], 20)]
    sc = astgen.mk_scenario(g, "n", [], steps, ex, 10)
    if rule:
        ch.append(astgen.mk_rule(g, "r", [], [sc], 9))
    else:
        ch.append(sc)
    return astgen.mk_doc(g, [], ch), g


def keyword_types(k1: int, k2: int, k3: int, k4: int, k5: int, outline: bool) -> bool:
    """
    pre: 0 <= k1 < 5 and 0 <= k2 < 5 and 0 <= k3 < 5 and 0 <= k4 < 5 and 0 <= k5 < 5
    pre: _fix_ok("k1", k1) and _fix_ok("k2", k2) and _fix_ok("k3", k3) and _fix_ok("k5", k5)
    post: _
    """
    nbg = param("nbg", 2)
    nsc = param("nsc", 3)
    doc, g = _kt_doc(k1, k2, k3, k4, k5, nbg, nsc, outline, param("rule", False))
    idgen = IdGenerator()
    idgen._id_counter = g.n
    got = Compiler(idgen).compile(doc)
    kts = [pick(k, KT) for k in (k1, k2, k3, k4, k5)]
    outline = True if outline else False
    with sym.untraced():
        return _kt_verdict(kts, nbg, nsc, outline, doc, g, got)


def _kt_verdict(kts, nbg, nsc, outline, doc, g, got):
    # C10 restated: fold from Unknown over background + own steps; conjunction inherits; same for plain and outline
    seq = kts[:nbg] + kts[2:2 + nsc]
    exp = []
    last = "Unknown"
    for k in seq:
        if k != "Conjunction":
            last = k
        exp.append(last)
    if nsc == 0:
        exp = []
    if len(got) != (2 if outline else 1):
        return False
    for p in got:
        types = [s["type"] for s in p["steps"]]
        if types != exp:
            return False
        for t in types:
            if t not in ("Unknown", "Context", "Action", "Outcome"):
                return False
    return astgen.same(project(got, "c10"), project(astgen.ref_compile(doc, g.n), "c10"))


def twin_types_never_unknown(k1: int, k3: int) -> bool:
    """
    pre: 0 <= k1 < 5 and 0 <= k3 < 5
    post: _
    """
    doc, g = _kt_doc(k1, 0, k3, 0, 0, 1, 1, False, False)
    got = Compiler(IdGenerator()).compile(doc)
    return all(s["type"] != "Unknown" for s in got[0]["steps"])
