"""Engine self-test: lemma pairs on the string operations the harnesses lean on.
True lemmas must come back CONFIRMED, false twins must yield a replayable counterexample."""
import kit.sym  # noqa


def t_strip_slice(s: str) -> bool:
    """
    pre: len(s) <= 3
    post: _
    """
    x = "Given " + s + "\n"
    t = x.lstrip()
    return t[6:].strip() == s.strip()


def f_strip_slice(s: str) -> bool:
    """
    pre: len(s) <= 3
    post: _
    """
    x = "Given " + s + "\n"
    t = x.lstrip()
    return t[6:].strip() == s.lstrip()


def t_eq_sliced_concat(s: str) -> bool:
    """
    pre: len(s) <= 2
    post: _
    """
    return (s + "\n")[:-1] == s and (s + "\r\n").rstrip("\r\n") == s.rstrip("\r\n")


def f_rstrip(s: str) -> bool:
    """
    pre: len(s) <= 2
    post: _
    """
    return (s + "\r\n").rstrip("\n") == s


def t_split_join(s: str) -> bool:
    """
    pre: len(s) <= 3
    post: _
    """
    return "@".join(s.split("@")) == s and s.replace("ab", "ab") == s


def f_split_count(s: str) -> bool:
    """
    pre: len(s) <= 3
    post: _
    """
    return len(s.split("@")) <= 2


def t_rx_sub(s: str) -> bool:
    """
    pre: len(s) <= 3
    post: _
    """
    from kit import rx
    r = rx.sub(r"^[^\S\n]*", "", s)
    return len(r) <= len(s) and (r == "" or not (r[0].isspace() and r[0] != "\n"))


def f_rx_sub(s: str) -> bool:
    """
    pre: len(s) <= 3
    post: _
    """
    from kit import rx
    r = rx.sub(r"[^\S\n]*$", "", s)
    return r == "" or not r[-1].isspace()
