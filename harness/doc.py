"""Document-level harnesses: the REAL Parser + TokenMatcher + AstBuilder (+ Compiler) on documents rendered from a document
model with symbolic text pieces; the oracle is the AST the writer (kit.render) prescribes.  Serves C03, C04, C11, C13, C15, C17.
"""
import copy

import kit.sym as sym  # noqa (first)
from kit.sym import pick, param

from gherkin.parser import Parser
from gherkin.ast_builder import AstBuilder
from gherkin.token_matcher import TokenMatcher
from gherkin.pickles.compiler import Compiler
from gherkin.stream.id_generator import IdGenerator
from gherkin.errors import CompositeParserException, ParserException
from kit import render, astgen
from kit.render import W
from kit.linespec import trim

SHAPE = param("shape", "steps")
EOL = param("eol", "\n")
START = param("start", 0)
IND = param("ind", "  ")


def _plain(s):
    """text that cannot change the kind of its line or close a cell / tag: no line feed, pipe, backslash; no carriage return
    (carriage returns occur only as part of CRLF line ends, which the `eol` parameter covers)"""
    return all(c != "\n" and c != "\r" and c != "|" and c != "\\" for c in s)


def _tagname(s):
    return len(s) >= 1 and all((not c.isspace()) and c != "@" and c != "#" for c in s)


def build(shape, a, b, c):
    """-> (writer, expected gherkinDocument).  a, b, c are the (symbolic) text holes; their role depends on the shape."""
    w = W(START, EOL)
    i1, i2, i3 = IND, IND * 2, IND * 3
    comments_first = []
    if shape == "titles":
        # names, keywords as written, tags with columns, a comment before the tags
        w.comment("", " top")
        ft = w.tag_line("", ["f", "t" + b], "  ")
        f = w.title("", "Feature", a)
        st = w.tag_line(i1, ["s"])
        s = w.title(i1, "Example", " n " + c)
        steps = [w.step(i2, "Given ", "x", "Context")]
        sc = {"id": None, "tags": w.finish_tags(st), **s, "description": "", "steps": steps, "examples": []}
        sc["id"] = w.id("scenario")
        children = [{"scenario": _order(sc, ["id", "tags", "location", "keyword", "name", "description", "steps", "examples"])}]
        return w, _feature(w, ft, f, "", children)
    if shape == "steps":
        # step text, data table cells (padding, columns), keyword types
        f = w.title("", "Feature", " f")
        s = w.title(i1, "Scenario", " s")
        steps = [w.step(i2, "Given ", a, "Context", table=[[b, "x"], ["", c]]),
                 w.step(i2, "* ", "y" + a, "Unknown"),
                 w.step(i2, "And ", " z", "Conjunction")]
        sc = _scenario(w, [], s, "", steps, [])
        return w, _feature(w, [], f, "", [{"scenario": sc}])
    if shape == "docstring":
        # doc string: media type, content lines verbatim minus the delimiter's indentation, the element after it
        f = w.title("", "Feature", " f")
        bg = w.title(i1, "Background", "")
        delim = param("delim", '"""')
        bsteps = [w.step(i2, "Given ", "b", "Context", doc=(delim, a, [i3 + b, c, i3 + "  " + "Given x", ""])),
                  w.step(i2, "When ", "after", "Action")]
        bgn = {"id": None, **bg, "description": "", "steps": bsteps}
        bgn["id"] = w.id("background")
        s = w.title(i1, "Scenario", " s")
        # a description AFTER a doc string, indented deeper than the doc string's delimiter: reported verbatim
        sdesc = w.description([("text", i3 + "    after" + a), ("text", " less")])
        steps = [w.step(i2, "Then ", "t", "Outcome", doc=("```" if delim == '"""' else '"""', "", [b, ""]))]
        sc = _scenario(w, [], s, sdesc, steps, [])
        return w, _feature(w, [], f, "", [{"background": _order(bgn, ["id", "location", "keyword", "name", "description", "steps"])}, {"scenario": sc}])
    if shape == "description":
        # descriptions: start at the first comment or text line, comment lines left out, trailing blank lines dropped
        f = w.title("", "Feature", " f")
        kinds = param("desc", ["text", "blank", "ws"])
        lines = []
        holes = [a, b, c]
        for i, k in enumerate(kinds):
            h = holes[i % 3]
            if k == "text":
                lines.append(("text", i1 + "d" + h))
            elif k == "ws":
                lines.append(("text", " " + h))       # h is constrained to blanks by the harness
            elif k == "blank":
                lines.append(("text", ""))
            elif k == "empty-before":
                lines.append(("empty-before", ""))
            elif k == "comment":
                lines.append(("comment", "#" + h))
        fdesc = w.description(lines)
        s = w.title(i1, "Scenario", " s")
        sdesc = w.description([("text", i2 + "sd"), ("text", "")])
        steps = [w.step(i2, "Given ", "x", "Context")]
        sc = _scenario(w, [], s, sdesc, steps, [])
        return w, _feature(w, [], f, fdesc, [{"scenario": sc}])
    if shape == "outline":
        # examples blocks: tags, name, table header / body, second block without table; rule with background
        f = w.title("", "Feature", " f")
        st = w.tag_line(i1, ["o"])
        s = w.title(i1, "Scenario Outline", " o <h>")
        steps = [w.step(i2, "When ", "w <h>" + a, "Action")]
        et = w.tag_line(i2, ["e" + b, "e2"])
        e = w.title(i2, "Examples", c)
        rows = w.table(i3, [["h", "k"], [a, "1"], ["v2", b]])
        ex1 = {"id": None, "tags": w.finish_tags(et), **e, "description": "", "tableHeader": rows[0], "tableBody": rows[1:]}
        ex1["id"] = w.id("examples")
        e2 = w.title(i2, "Scenarios", "")
        ex2 = {"id": w.id("examples"), "tags": [], **e2, "description": "", "tableBody": []}
        sc = _scenario(w, st, s, "", steps, [_order(ex1, ["id", "tags", "location", "keyword", "name", "description", "tableHeader", "tableBody"]),
                                              _order(ex2, ["id", "tags", "location", "keyword", "name", "description", "tableBody"])])
        rt = w.tag_line(i1, ["r"])
        r = w.title(i1, "Rule", " r" + c)
        rbg = w.title(i2, "Background", " rb")
        rbs = [w.step(i3, "Given ", "g", "Context")]
        rbgn = {"id": None, **rbg, "description": "", "steps": rbs}
        rbgn["id"] = w.id("background")
        rs = w.title(i2, "Example", " e")
        rsc = _scenario(w, [], rs, "", [], [])
        rule = {"id": None, "tags": w.finish_tags(rt), **r, "description": "",
                "children": [{"background": _order(rbgn, ["id", "location", "keyword", "name", "description", "steps"])}, {"scenario": rsc}]}
        rule["id"] = w.id("rule")
        return w, _feature(w, [], f, "", [{"scenario": sc}, {"rule": _order(rule, ["id", "tags", "location", "keyword", "name", "description", "children"])}])
    raise ValueError(shape)


def _order(d, keys):
    return {k: d[k] for k in keys if k in d}


def _scenario(w, pending_tags, title, desc, steps, examples):
    sc = {"id": None, "tags": w.finish_tags(pending_tags), **title, "description": desc, "steps": steps, "examples": examples}
    sc["id"] = w.id("scenario")
    return _order(sc, ["id", "tags", "location", "keyword", "name", "description", "steps", "examples"])


def _feature(w, pending_tags, title, desc, children, language="en"):
    feat = {"tags": w.finish_tags(pending_tags), "location": title["location"], "language": language, "keyword": title["keyword"],
            "name": title["name"], "description": desc, "children": children}
    return {"feature": feat, "comments": list(w.comments)}


def parse_lines(lines, idgen=None, matcher=None, parser=None):
    idgen = idgen or IdGenerator()
    p = parser or Parser(AstBuilder(idgen))
    return p.parse(render.scanner(lines), matcher or TokenMatcher())


def _holes_ok(shape, a, b, c):
    n = param("maxlen", 2)
    if len(a) > n or len(b) > n or len(c) > n:
        return False
    if not (_plain(a) and _plain(b) and _plain(c)):
        return False
    if shape == "titles":
        return all((not ch.isspace()) and ch != "@" and ch != "#" for ch in b)
    if shape == "docstring":
        d = param("delim", '"""')
        # content lines must not start (after their indentation) with the active delimiter
        return not trim(b).startswith(d) and not trim(c).startswith(d) and not trim(b).startswith("```" if d == '"""' else '"""')
    if shape == "description":
        kinds = param("desc", ["text", "blank", "ws"])
        holes = [a, b, c]
        for i, k in enumerate(kinds):
            if k == "ws" and not all(ch.isspace() for ch in holes[i % 3]):
                return False
        return True
    if shape == "outline":
        return all((not ch.isspace()) and ch != "@" and ch != "#" for ch in b)
    return True


def ast_matches_model(a: str, b: str, c: str) -> bool:
    """
    pre: _holes_ok(SHAPE, a, b, c)
    post: _
    """
    w, exp = build(SHAPE, a, b, c)
    idgen = IdGenerator()
    idgen._id_counter = START
    lines = list(w.lines)
    if param("no_final_eol", False):
        # presence or absence of a final line break does not change the AST
        lines[-1] = lines[-1][:-len(EOL)]
    got = parse_lines(lines, idgen)
    sym.reach("parsed")
    ok = astgen.same(got, exp)
    # C11: ids are dense from the generator's counter
    return ok and idgen._id_counter == w.n


def twin_never_parses(a: str) -> bool:
    """
    pre: len(a) <= 1 and _plain(a)
    post: _
    """
    w, exp = build(SHAPE, a, "", "")
    try:
        parse_lines(w.lines)
    except CompositeParserException:
        return True
    return False


def explain(call):
    """replay helper: show expected vs got for a counterexample call"""
    import ast as _ast
    node = _ast.parse(call, mode="eval").body
    args = [_ast.literal_eval(x) for x in node.args]
    w, exp = build(SHAPE, *args[:3])
    try:
        got = parse_lines(w.lines)
    except Exception as e:  # noqa
        got = repr(e)
    import json
    return "lines=%r\nexpected=%s\ngot=%s" % (w.lines, json.dumps(exp)[:700], json.dumps(got, default=str)[:700])


def ids_from_any_counter(n0: int) -> bool:
    """
    pre: 0 <= n0 <= 9
    post: _
    """
    n0 = n0 + param("base", 0)
    # C11: one inductive step over the history of a stream: whatever the shared generator has handed out before (n0 ids),
    # this document's AST nodes and pickles get exactly n0, n0+1, ... in canonical order
    w, exp = build(SHAPE, "a", "b", "c")
    idgen = IdGenerator()
    idgen._id_counter = n0
    got = parse_lines(w.lines, idgen)
    got["uri"] = "u"
    pickles = Compiler(idgen).compile(got)
    with sym.untraced():
        base = _collect_ids(exp)
    k = len(base)
    ids = _collect_ids(got)
    if len(ids) != k:
        return False
    for i, x in enumerate(ids):
        if x != str(n0 + int(base[i])):
            return False
    j = k
    for p in pickles:
        for s in p["steps"]:
            if s["id"] != str(n0 + j):
                return False
            j += 1
        if p["id"] != str(n0 + j):
            return False
        j += 1
    return idgen._id_counter == n0 + j


def _collect_ids(node, out=None):
    """ids in document (pre-order) position; the canonical numbering is checked through the expected AST"""
    if out is None:
        out = []
    if isinstance(node, dict):
        if "id" in node:
            out.append(node["id"])
        for k, v in node.items():
            _collect_ids(v, out)
    elif isinstance(node, list):
        for v in node:
            _collect_ids(v, out)
    return out


# ---------------------------------------------------------------- C15: reuse and interleaving

PREV_DOCS = {
    "accepted": ["Feature: p\n", "  Scenario: q\n", "    Given r\n"],
    "rejected": ["Feature: p\n", "  junk\n", "  Scenario: q\n", "    | x |\n", "Feature: again\n"],
    "french": ["# language: fr\n", "Fonctionnalité: p\n", "  Scénario: q\n", "    Soit r\n", "    Alors s\n"],
    "open-docstring": ["Feature: p\n", "  Scenario: q\n", "    Given r\n", "        ```xml\n", "        inside\n"],
    "open-docstring2": ["Feature: p\n", "  Background:\n", "    Given r\n", '      """\n', "   x\n"],
    "bad-tag": ["@a b\n", "Feature: p\n"],
    "ragged": ["Feature: p\n", "  Scenario: q\n", "    Given r\n", "      | a | b |\n", "      | c |\n"],
    "comments": ["# c1\n", "Feature: p\n", "  # c2\n", "  Scenario: q\n", "    Given r\n", "# c3\n"],
}
HISTORY = param("history", ["french", "open-docstring", "rejected"])


def reuse_matches_fresh(a: str, b: str, c: str) -> bool:
    """
    pre: _holes_ok(SHAPE, a, b, c)
    post: _
    """
    # one Parser, one TokenMatcher, one AstBuilder (and one id generator) parse a history of other documents - accepted,
    # rejected, switching dialect, ending inside a doc string - and then this one: result == fresh instances, up to the id offset
    idgen = IdGenerator()
    parser = Parser(AstBuilder(idgen))
    matcher = TokenMatcher()
    for name in HISTORY:
        try:
            parser.parse(render.scanner(PREV_DOCS[name]), matcher)
        except CompositeParserException:
            pass
    global START
    saved = START
    START = idgen._id_counter
    try:
        w, exp = build(SHAPE, a, b, c)
    finally:
        START = saved
    got = parser.parse(render.scanner(w.lines), matcher)
    sym.reach("parsed")
    if not (astgen.same(got, exp) and idgen._id_counter == w.n):
        return False
    # ... and a result already returned is not changed by later parses with the same instances
    with sym.untraced():
        snapshot = copy.deepcopy(got)
    for name in HISTORY[:2]:
        try:
            parser.parse(render.scanner(PREV_DOCS[name]), matcher)
        except CompositeParserException:
            pass
    return astgen.same(got, snapshot)


class _Hook:
    """scanner wrapper: before handing out line number `at`, run `action` (another parse) to completion"""

    def __init__(self, inner, at, action):
        self.inner = inner
        self.at = at
        self.action = action
        self.n = 0

    def read(self):
        self.n += 1
        if self.n == self.at:
            self.action()
        return self.inner.read()


def nested_parses(i: int, j: int, a: str) -> bool:
    """
    pre: 1 <= i <= 9 and 1 <= j <= 6
    pre: len(a) <= param("maxlen", 1) and _plain(a)
    post: _
    """
    # schedule as solver variables, in the form a thread-free engine allows: while parser A waits for its i-th line, parser B
    # (own Parser instance, default matcher) parses its whole document, and while B waits for its j-th line a third one (C) runs.
    # Every result must equal the result the document gives alone.
    wa, expa = build(SHAPE, a, "b", "c")
    lines_b = PREV_DOCS[param("other", "open-docstring")]
    lines_c = PREV_DOCS["french"]
    alone_b = _outcome(lambda: Parser().parse(render.scanner(lines_b)))
    alone_c = _outcome(lambda: Parser().parse(render.scanner(lines_c)))
    res = {}

    def run_c():
        res["c"] = _outcome(lambda: Parser().parse(render.scanner(lines_c)))

    def run_b():
        res["b"] = _outcome(lambda: Parser().parse(_Hook(render.scanner(lines_b), j, run_c)))

    got = _outcome(lambda: Parser().parse(_Hook(render.scanner(wa.lines), i, run_b)))
    if "b" not in res:
        return True   # document A has fewer than i lines
    sym.reach("interleaved")
    if "c" in res and not astgen.same(res["c"], alone_c):
        return False
    return astgen.same(res["b"], alone_b) and astgen.same(got, ("ok", expa))


def _outcome(f):
    try:
        return ("ok", f())
    except CompositeParserException as e:
        return ("errors", [str(x) for x in e.errors])
