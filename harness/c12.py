"""C12 — table cells are split and unescaped as documented; tables are rectangular.

Oracles are written from the property statement / README "Table cell escaping", index based,
and share no code with gherkin_line.py.
"""
import kit.sym as sym  # noqa  (must be first)
from kit.sym import pick, param

from gherkin.gherkin_line import GherkinLine
from gherkin.ast_builder import AstBuilder
from gherkin.errors import ParserException


def is_blank(ch):
    """blank = white space other than the line feed"""
    return ch.isspace() and ch != "\n"


def ref_split(row):
    """[(cell text after un-escaping, 1-based column of the first raw character of the cell)]"""
    out = []
    i = 0
    n = len(row)
    cell = ""
    first = True
    start = 1
    while i < n:
        c = row[i]
        if c == "|":
            if first:
                first = False
            else:
                out.append((cell, start))
            cell = ""
            start = i + 2
            i += 1
        elif c == "\\":
            if i + 1 < n:
                d = row[i + 1]
                if d == "n":
                    cell += "\n"
                elif d == "|" or d == "\\":
                    cell += d
                else:
                    cell += "\\" + d
                i += 2
            else:
                cell += "\\"
                i += 1
        else:
            cell += c
            i += 1
    return out


def ref_trim(s):
    a = 0
    b = len(s)
    while a < b and is_blank(s[a]):
        a += 1
    while b > a and is_blank(s[b - 1]):
        b -= 1
    return s[a:b], a


def ref_cells(line):
    """what table_cells must return for a physical line (statement of C12 + C04 columns)"""
    indent = 0
    while indent < len(line) and line[indent].isspace():
        indent += 1
    body = line[indent:]
    e = len(body)
    while e > 0 and body[e - 1].isspace():
        e -= 1
    body = body[:e]
    out = []
    for cell, start in ref_split(body):
        text, lead = ref_trim(cell)
        out.append({"column": indent + start + lead, "text": text})
    return out


def _class_ok(ch, k):
    """character classes the splitter distinguishes: 0 pipe, 1 backslash, 2 'n', 3 blank, 4 other"""
    if k == 0:
        return ch == "|"
    if k == 1:
        return ch == "\\"
    if k == 2:
        return ch == "n"
    if k == 3:
        return ch.isspace()
    return ch != "|" and ch != "\\" and ch != "n" and not ch.isspace()


def _prefix_ok(row):
    classes = param("classes")
    if not classes:
        return True
    if len(row) < len(classes):
        return False
    for i, k in enumerate(classes):
        if not _class_ok(row[i], k):
            return False
    return True


def split_equals_reference(row: str) -> bool:
    """
    pre: len(row) <= param("maxlen", 5)
    pre: _prefix_ok(row)
    post: _
    """
    got = list(GherkinLine.split_table_cells(row))
    exp = ref_split(row)
    if len(exp) >= 2:
        sym.reach("two-cells")
    return got == exp


def split_twin_never_two_cells(row: str) -> bool:
    """
    pre: len(row) <= 5
    post: _
    """
    return len(list(GherkinLine.split_table_cells(row))) < 2


def split_twin_no_linefeed(row: str) -> bool:
    """
    pre: len(row) <= 5
    pre: chr(10) not in row
    post: _
    """
    return all(chr(10) not in c for c, _ in GherkinLine.split_table_cells(row))


def split_twin_no_backslash_kept(row: str) -> bool:
    """
    pre: len(row) <= 5
    post: _
    """
    return all(chr(92) not in c for c, _ in GherkinLine.split_table_cells(row))


def cells_equal_reference(ind: str, body: str, tail: str) -> bool:
    """
    pre: len(ind) <= param("maxind", 1) and len(body) <= param("maxlen", 4) and len(tail) <= param("maxtail", 1)
    pre: all(c.isspace() and c != chr(10) for c in ind)
    pre: tail in ("", chr(10), chr(13) + chr(10), " ", " " + chr(10))
    pre: chr(10) not in body
    post: _
    """
    line = ind + "|" + body + tail
    got = GherkinLine(line, 1).table_cells
    exp = ref_cells(line)
    return got == exp


def cells_twin_never_trimmed(body: str) -> bool:
    """
    pre: len(body) <= 4
    pre: chr(10) not in body
    post: _
    """
    line = "|" + body
    cells = GherkinLine(line, 1).table_cells
    raw = list(GherkinLine.split_table_cells(line.strip()))
    return all(c["text"] == r[0] for c, r in zip(cells, raw))


def _escape(t):
    return t.replace("\\", "\\\\").replace("|", "\\|").replace("\n", "\\n")


def cell_round_trip(t: str, pad: str) -> bool:
    """
    pre: len(t) <= param("maxlen", 4) and len(pad) <= 1
    pre: all(c.isspace() and c != chr(10) for c in pad)
    pre: t == "" or not (is_blank(t[0]) or is_blank(t[-1]))
    post: _
    """
    line = "|" + pad + _escape(t) + pad + "|"
    cells = GherkinLine(line + "\n", 1).table_cells
    if chr(10) in t:
        sym.reach("linefeed-in-cell")
    return len(cells) == 1 and cells[0]["text"] == t


def round_trip_twin(t: str) -> bool:
    """
    pre: len(t) <= 3
    post: _
    """
    line = "|" + _escape(t) + "|"
    cells = GherkinLine(line, 1).table_cells
    return len(cells) == 1 and cells[0]["text"] == t


def _mk_rows(ns):
    rows = []
    for i, n in enumerate(ns):
        rows.append({"id": str(i), "location": {"line": i + 1, "column": 1},
                     "cells": [{"location": {"line": i + 1, "column": 2 + j}, "value": "v"} for j in range(n)]})
    return rows


def rectangular(nrows: int, a: int, b: int, c: int, d: int) -> bool:
    """
    pre: 0 <= nrows <= 4
    pre: 0 <= a <= 3 and 0 <= b <= 3 and 0 <= c <= 3 and 0 <= d <= 3
    post: _
    """
    ns = [a, b, c, d][:nrows]
    rows = _mk_rows(ns)
    first_bad = None
    for i, n in enumerate(ns):
        if n != ns[0]:
            first_bad = i
            break
    try:
        AstBuilder.ensure_cell_count(rows)
    except ParserException as e:
        sym.reach("ragged")
        return first_bad is not None and e.location == {"line": first_bad + 1, "column": 1} and \
            str(e).startswith("(%d:1): " % (first_bad + 1))
    return first_bad is None


def rectangular_twin(a: int, b: int) -> bool:
    """
    pre: 0 <= a <= 3 and 0 <= b <= 3
    post: _
    """
    AstBuilder.ensure_cell_count(_mk_rows([a, b]))
    return True
