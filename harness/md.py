"""C19 — the Markdown token matcher (line level) against the rules of MARKDOWN_WITH_GHERKIN.md as restated in the property."""
import kit.sym as sym  # noqa
from kit.sym import pick, param

from gherkin.gherkin_line import GherkinLine
from gherkin.token import Token
from gherkin.token_matcher_markdown import GherkinInMarkdownTokenMatcher
from kit import linespec
from kit.linespec import trim, is_blank, lstrip_len

D = param("dialect", "en")
_T = linespec.master_table()
TITLE_CATS = [("feature", "FeatureLine"), ("rule", "RuleLine"), ("background", "BackgroundLine"), ("scenario", "ScenarioLine"),
              ("scenarioOutline", "ScenarioLine"), ("examples", "ExamplesLine")]
TITLES = []
for _c, _r in TITLE_CATS:
    for _k in _T[D][_c]:
        if (_r, _k) not in TITLES:
            TITLES.append((_r, _k))
STEP_KWS = []
for _c in ("given", "when", "then", "and", "but"):
    for _k in _T[D][_c]:
        STEP_KWS.append(_k)          # duplicates kept: the order is the listing order
ROLES = ["FeatureLine", "RuleLine", "BackgroundLine", "ScenarioLine", "ExamplesLine"]
LO = param("lo", 0)
HI = param("hi", 10 ** 6)


def _match(kind, line):
    tm = GherkinInMarkdownTokenMatcher(D)
    tok = Token(GherkinLine(line, 1), {"line": 1})
    r = getattr(tm, "match_" + kind)(tok)
    return r, tok


def _keywords_of(role):
    out = []
    for c, r in TITLE_CATS:
        if r == role:
            out.extend(_T[D][c])
    return out


IND = param("ind", "")


def title_line(i: int, depth: int, sep: str, title: str) -> bool:
    """
    pre: 0 <= i < len(TITLES) and LO <= i < HI
    pre: 0 <= depth <= 7
    pre: len(sep) <= 1 and len(title) <= param("maxlen", 1)
    pre: chr(10) not in sep and chr(10) not in title and chr(13) not in title
    post: _
    """
    role, kw = pick(i, TITLES)
    ind = IND
    line = ind + "#" * depth + sep + kw + ":" + title + "\n"
    header_ok = 1 <= depth <= 6 and len(sep) == 1 and sep.isspace()
    others = [r for r in ROLES if r != role]
    for r in [role, others[i % len(others)]]:
        got, tok = _match(r, line)
        # expected: a header of depth 1..6, one blank, a keyword of this role followed by ':' (first listed keyword of the role that fits)
        want_kw = None
        if header_ok:
            rest = kw + ":" + title
            for k in _keywords_of(r):
                if rest.startswith(k + ":"):
                    want_kw = k
                    break
        if want_kw is None:
            if got:
                return False
            continue
        sym.reach("recognised")
        if not got:
            return False
        col = len(ind) + depth + 1 + 1
        if tok.matched_type != r or tok.matched_keyword != want_kw or tok.location != {"line": 1, "column": col}:
            return False
        if tok.matched_text != trim((kw + ":" + title)[len(want_kw) + 1:]):
            return False
    # a header line is not a step line
    got, tok = _match("StepLine", line)
    return not got or depth == 0


def step_line(i: int, b: int, gap: str, ind: str, text: str) -> bool:
    """
    pre: 0 <= i < len(STEP_KWS) and LO <= i < HI
    pre: 0 <= b < 5
    pre: len(gap) <= 1 and len(ind) <= 1 and len(text) <= param("maxlen", 1)
    pre: all(c.isspace() and c != chr(10) for c in ind + gap)
    pre: chr(10) not in text and chr(13) not in text
    post: _
    """
    kw = pick(i, STEP_KWS)
    bullet = pick(b, ["*", "+", "-", "", "#"])
    line = ind + bullet + gap + kw + text + "\n"
    got, tok = _match("StepLine", line)
    t = bullet + gap + kw + text
    # expected, read off the line itself: a list item bullet ('*', '+' or '-') as first character, optional blanks, then the first listed
    # step keyword that prefixes the rest (the keyword '* ' of the harness's own pick can itself act as the bullet when no bullet is put in front)
    want = None
    lead = lstrip_len(t)      # blanks in front of the first non-blank character are indentation
    t = t[lead:]
    if len(t) >= 1 and t[0] in ("*", "+", "-"):
        rest = t[1:]
        j = lstrip_len(rest)
        for cut in range(j, -1, -1):
            for k in STEP_KWS:
                if rest[cut:].startswith(k):
                    want = (k, 1 + cut, rest[cut + len(k):])
                    break
            if want:
                break
    if want is None:
        return not got
    sym.reach("recognised")
    if not got:
        return False
    k, off, remainder = want
    return tok.matched_type == "StepLine" and tok.matched_keyword == k and tok.location == {"line": 1, "column": len(ind) + lead + off + 1} and \
        tok.matched_text == trim(remainder)


def table_row(n: int, ws: str, a: str) -> bool:
    """
    pre: 0 <= n <= 8
    pre: len(ws) <= 1 and all(c.isspace() and c != chr(10) for c in ws)
    pre: len(a) <= param("maxlen", 2)
    pre: all(c not in (chr(10), chr(13), "|", chr(92)) for c in a)
    post: _
    """
    b = param("b", "x")
    indent = " " * n if len(ws) == 0 else " " * (n - 1) + ws if n >= 1 else ""
    line = indent + "| " + a + " |" + b + "|\n"
    got, tok = _match("TableRow", line)

    def sep(cell):
        c = trim(cell)
        if c == "":
            return False
        core = c[1:] if c.startswith(":") else c
        core = core[:-1] if core.endswith(":") and len(core) > 0 else core
        return len(core) >= 1 and all(ch == "-" for ch in core)

    want = 2 <= len(indent) <= 5 and not sep(a) and not sep(b)
    if want:
        sym.reach("recognised")
    if got != want:
        return False
    if got:
        cells = [it["text"] for it in tok.matched_items]
        return cells == [trim(a), trim(b)] and tok.location == {"line": 1, "column": len(indent) + 1}
    return True


def table_row_escaped(n: int, a1: str, a2: str) -> bool:
    """
    pre: 0 <= n <= 8
    pre: len(a1) <= 1 and len(a2) <= param("maxlen", 2)
    pre: all(c not in (chr(10), chr(13), "|", chr(92)) for c in a1 + a2)
    post: _
    """
    # a cell with an ESCAPED pipe: '\\|' is cell content, not a delimiter, also for the GFM separator test (which looks at the cells)
    b = param("b", "x")
    indent = " " * n
    line = indent + "| " + a1 + chr(92) + "|" + a2 + " |" + b + "|" + chr(10)
    got, tok = _match("TableRow", line)
    cell = a1 + "|" + a2

    def sep(c0):
        c = trim(c0)
        if c == "":
            return False
        core = c[1:] if c.startswith(":") else c
        core = core[:-1] if core.endswith(":") and len(core) > 0 else core
        return len(core) >= 1 and all(ch == "-" for ch in core)

    want = 2 <= n <= 5 and not sep(cell) and not sep(b)
    if want:
        sym.reach("recognised")
    if got != want:
        return False
    if got:
        cells = [it["text"] for it in tok.matched_items]
        return cells == [trim(cell), trim(b)] and tok.location == {"line": 1, "column": n + 1}
    return True


def tag_line(ind: str, g1: str, t1: str, g2: str, t2: str, tail: str) -> bool:
    """
    pre: len(ind) <= 1 and all(c.isspace() and c != chr(10) for c in ind)
    pre: len(g1) <= 1 and len(g2) <= 1 and len(tail) <= 1 and len(t1) <= 2 and len(t2) <= 2
    pre: len(t1) >= 1 and len(t2) >= 1
    pre: all(c != "`" and c != chr(10) and c != chr(13) for c in g1 + g2 + tail + t1 + t2)
    pre: not (len(g1) == 1 and g1.isspace())
    post: _
    """
    # tags are the back-tick quoted '@' words of a line, each with its own column
    line = ind + g1 + "`@" + t1 + "`" + g2 + "`@" + t2 + "`" + tail + "\n"
    got, tok = _match("TagLine", line)
    if not got:
        return False
    c1 = len(ind) + len(g1) + 2
    c2 = c1 + len(t1) + 1 + len(g2) + 2
    return tok.matched_items == [{"column": c1, "text": "@" + t1}, {"column": c2, "text": "@" + t2}]


def no_tags(text: str) -> bool:
    """
    pre: len(text) <= 3 and chr(10) not in text
    pre: text.count("`") < 2
    post: _
    """
    got, tok = _match("TagLine", text + "\n")
    return not got


def twin_never_title(depth: int) -> bool:
    """
    pre: 0 <= depth <= 7
    post: _
    """
    role, kw = TITLES[0]
    got, tok = _match(role, "#" * depth + " " + kw + ": x\n")
    return not got


def title_cheap(i: int, six: bool) -> bool:
    """
    pre: 0 <= i < len(TITLES)
    post: _
    """
    # every title keyword of the dialect at header depth 2 / 6 with a plain title (all dialects are affordable this way)
    role, kw = pick(i, TITLES)
    depth = 6 if six else 2
    line = "#" * depth + " " + kw + ": t\n"
    got, tok = _match(role, line)
    if not got:
        return False
    want = None
    for k in _keywords_of(role):
        if (kw + ":").startswith(k + ":"):
            want = k
            break
    return tok.matched_keyword == want and tok.location == {"line": 1, "column": depth + 2} and tok.matched_text == "t"


def step_cheap(i: int, b: int) -> bool:
    """
    pre: 0 <= i < len(STEP_KWS) and 0 <= b < 3
    post: _
    """
    kw = pick(i, STEP_KWS)
    line = pick(b, ["*", "+", "-"]) + " " + kw + "t\n"
    got, tok = _match("StepLine", line)
    if not got:
        return False
    want = None
    for k in STEP_KWS:
        if (kw + "t").startswith(k):
            want = k
            break
    # the bullet '*' followed by a blank may itself be read as the keyword '* ' only when nothing better follows - not the case here
    return tok.matched_keyword == want and tok.location == {"line": 1, "column": 3}
