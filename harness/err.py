"""Error objects (C14 / C04 / C01): message prefix, location fall-backs, quoted line, parseError envelopes."""
import kit.sym as sym  # noqa
from kit.sym import pick, param

from gherkin.errors import (ParserException, NoSuchLanguageException, AstBuilderException, UnexpectedEOFException,
                            UnexpectedTokenException, CompositeParserException, ParserError)
from gherkin.gherkin_line import GherkinLine
from gherkin.token import Token
from gherkin.stream.gherkin_events import create_errors

LINE_NO = param("line_no", 7)
COL = param("col", 3)
EXPECTED = param("expected", ["#EOF", "#TagLine", "#Other"])


def _blankstr(s):
    return all(c.isspace() for c in s)


def unexpected_token(ind: str, body: str, tail: str, has_col: bool) -> bool:
    """
    pre: len(ind) <= 2 and len(body) <= 2 and len(tail) <= 1
    pre: _blankstr(ind) and _blankstr(tail)
    pre: body == "" or not (body[0].isspace() or body[-1].isspace())
    pre: len(body) >= 1
    post: _
    """
    line = ind + body + tail
    loc = {"line": LINE_NO}
    if has_col:
        loc["column"] = COL
    tok = Token(GherkinLine(line, LINE_NO), loc)
    e = UnexpectedTokenException(tok, list(EXPECTED), "State: 3 - x")
    col = COL if has_col else len(ind) + 1
    want = "(" + str(LINE_NO) + ":" + str(col) + "): expected: " + ", ".join(EXPECTED) + ", got '" + body + "'"
    return e.args[0] == want and e.location == {"line": LINE_NO, "column": col} and isinstance(e, ParserException)


def unexpected_eof(has_col: bool) -> bool:
    """
    post: _
    """
    loc = {"line": LINE_NO}
    if has_col:
        loc["column"] = COL
    tok = Token(None, loc)
    e = UnexpectedEOFException(tok, list(EXPECTED), "State: 3 - x")
    want = "(%d:%d): unexpected end of file, expected: %s" % (LINE_NO, COL if has_col else 0, ", ".join(EXPECTED))
    return str(e) == want and e.location["line"] == LINE_NO


def plain_errors(msg: str, name: str, which: int, has_col: bool) -> bool:
    """
    pre: len(msg) <= 1 and len(name) <= 1 and 0 <= which < 3
    post: _
    """
    loc = {"line": LINE_NO}
    if has_col:
        loc["column"] = COL
    head = "(%d:%d): " % (LINE_NO, COL if has_col else 0)
    if which == 0:
        e = ParserException(msg, loc)
        return e.args[0] == head + msg and e.location == loc
    if which == 1:
        e = NoSuchLanguageException(name, loc)
        return e.args[0] == head + "Language not supported: " + name and e.location == loc
    e = AstBuilderException(msg, loc)
    return e.args[0] == head + msg and isinstance(e, ParserException) and isinstance(e, ParserError)


def parse_error_envelopes(uri: str, n: int) -> bool:
    """
    pre: len(uri) <= 2 and 0 <= n <= 2
    post: _
    """
    m1, m2 = "first", "second\nline"
    errs = [ParserException(m1, {"line": 1, "column": 2}), ParserException(m2, {"line": 3})][:n]
    out = list(create_errors(errs, uri))
    if len(out) != n:
        return False
    for e, env in zip(errs, out):
        if list(env.keys()) != ["parseError"]:
            return False
        pe = env["parseError"]
        if sorted(pe.keys()) != ["message", "source"] or pe["message"] != str(e):
            return False
        if pe["source"] != {"uri": uri, "location": e.location}:
            return False
    c = CompositeParserException(errs)
    return c.errors == errs and isinstance(c, ParserError) and str(c) == "Parser errors:\n" + "\n".join(str(e) for e in errs)


def twin_never_column_fallback(ind: str) -> bool:
    """
    pre: len(ind) <= 2 and _blankstr(ind)
    post: _
    """
    tok = Token(GherkinLine(ind + "x", 1), {"line": 1})
    return UnexpectedTokenException(tok, ["#EOF"], "s").location["column"] == 1
