"""Real-parser harnesses at line-kind level (C02, C14, C18, C01b).

The REAL gherkin.parser.Parser (generated state functions, look-ahead loops, token queue, error
handling) and the REAL AstBuilder run on a concrete prefix of line kinds that leads into a
chosen parser state, followed by K *symbolic* line kinds; the oracle is kit.specparse (grammar
automaton derived from gherkin.berp + the error rules of C14).
"""
import kit.sym as sym  # noqa (first)
from kit.sym import param, pick

from gherkin.parser import Parser
from gherkin.errors import (CompositeParserException, ParserException, UnexpectedEOFException,
                            UnexpectedTokenException, NoSuchLanguageException, AstBuilderException)
from kit import pdrive, specparse, specast, astgen
from kit.pdrive import NK

PREFIX = param("prefix", [])
BEFORE = param("before", [])   # kind sequences parsed beforehand by the SAME Parser / matcher / builder (C15, C18)
K = param("k", 2)
STOP = bool(param("stop", False))


def classify_error(e):
    loc = e.location
    line = loc["line"]
    if isinstance(e, UnexpectedEOFException):
        msg = str(e)
        head = "(%d:0): unexpected end of file, expected: " % line
        if not msg.startswith(head):
            return ("badmsg", line, msg)
        return ("eof", line, tuple(msg[len(head):].split(", ")))
    if isinstance(e, UnexpectedTokenException):
        msg = str(e)
        head = "(%d:%d): expected: " % (line, loc.get("column", 0))
        if not msg.startswith(head) or ", got '" not in msg:
            return ("badmsg", line, msg)
        return ("unexpected", line, tuple(msg[len(head):msg.rindex(", got '")].split(", ")))
    if isinstance(e, NoSuchLanguageException):
        return ("lang", line, None)
    if isinstance(e, AstBuilderException):
        return ("ragged", line, None)
    if isinstance(e, ParserException) and "A tag may not contain whitespace" in str(e):
        return ("tag", line, None)
    return ("other", line, str(e))


def run_real(kinds, stop):
    sc = pdrive.KScanner(kinds)
    m = pdrive.KMatcher()
    b = pdrive.RecBuilder()
    p = Parser(b)
    p.stop_at_first_error = stop
    for old in BEFORE:
        try:
            p.parse(pdrive.KScanner(old), m)
        except ParserException:
            pass
        except CompositeParserException:
            pass
    m.calls = 0
    id_start = b.id_generator._id_counter     # ids continue from the shared generator (C15: equal up to this offset)
    res = {"doc": None, "errors": None, "raised": None, "id_start": id_start}
    try:
        res["doc"] = p.parse(sc, m)
    except CompositeParserException as e:
        res["errors"] = [classify_error(x) for x in e.errors]
        res["nerr"] = len(e.errors)
    except ParserException as e:
        res["raised"] = classify_error(e)
    res["events"] = list(b.events)
    res["handed"] = sc.handed
    res["calls"] = m.calls
    return res


def compare(kinds, stop):
    """True iff the real parser and the specification agree on this kind sequence."""
    # each symbolic kind is pinned by an explicit comparison chain (one solver-decided fork per value), so that the value is
    # concrete on the path - the oracle side then runs outside the tracer
    kinds = [pick(k, list(range(NK))) if not isinstance(k, int) or sym.SYMBOLIC else k for k in kinds]
    real = run_real(kinds, stop)
    spec = specparse.spec_parse(kinds, stop)
    n = len(kinds)
    if spec["accepted"]:
        sym.reach("accepted")
        if real["doc"] is None:
            return False
        if real["events"] != [e for e in spec["events"] if e[1] != "GherkinDocument"] and \
                real["events"] != spec["events"]:
            return False
        # C03: the AST contains exactly the elements the specification-level parser delivered, each once, in document order
        with sym.untraced():
            if ast_census(real["doc"]) != spec_census(spec["events"]):
                return False
            # the whole AST (nesting, order, canonical ids) equals the one built from the grammar derivation, and so do the pickles
            # compiled from it (source-level check of C06/C07/C08/C10/C11: pickles against what the SOURCE says, not against the AST)
            want, nxt = specast.build(spec["events"], kinds, real["id_start"])
            if not astgen.same(real["doc"], want):
                return False
            got_doc = dict(real["doc"])
            got_doc["uri"] = "u"
            want["uri"] = "u"
            from gherkin.pickles.compiler import Compiler
            from gherkin.stream.id_generator import IdGenerator
            idg = IdGenerator()
            idg._id_counter = nxt
            if not astgen.same(Compiler(idg).compile(got_doc), astgen.ref_compile(want, nxt)):
                return False
        # C18: one build per physical line, in order, then exactly one EOF
        builds = [e[1] for e in real["events"] if e[0] == "build"]
        if builds != list(range(1, n + 2)):
            return False
    else:
        sym.reach("rejected")
        if real["doc"] is not None:
            return False
        if stop:
            if real["raised"] is None or real["raised"] != spec["errors"][0]:
                return False
        else:
            if real["errors"] is None or real["errors"] != spec["errors"]:
                return False
            if not (1 <= len(real["errors"]) <= 11):
                return False
            if len(real["errors"]) == 11:
                sym.reach("capped")
        if real["events"] != spec["events"]:
            return False
        if not stop and not spec["capped"]:
            # C18: every line is either delivered to the builder or reported as unexpected, never both/neither
            builds = [e[1] for e in real["events"] if e[0] == "build"]
            unexpected = [e[1] for e in real["errors"] if e[0] in ("unexpected", "eof")]
            if sorted(builds + unexpected) != list(range(1, n + 2)):
                return False
    # C01: linear number of matching operations: every handed-out token is matched a bounded number of times
    for t in real["handed"]:
        if t.n_match_calls > 3 * 16:
            return False
    # C18/C01: the scanner is read exactly once per line up to the point where parsing ended
    lines = [t.location["line"] for t in real["handed"]]
    if lines != list(range(1, len(lines) + 1)):
        return False
    return True


def spec_census(events):
    out = []
    in_doc = False
    names = {"FeatureLine": "feature", "RuleLine": "rule", "BackgroundLine": "background", "ScenarioLine": "scenario", "ExamplesLine": "examples",
             "StepLine": "step", "TableRow": "row", "TagLine": "tag", "Comment": "comment"}
    for e in events:
        if e[0] != "build":
            continue
        line, t = e[1], e[2]
        if t == "DocStringSeparator":
            if not in_doc:
                out.append(("docString", line))
            in_doc = not in_doc
        elif t in names:
            out.append((names[t], line))
    return sorted(out)


def ast_census(doc):
    out = []

    def tags(ts):
        for t in ts:
            out.append(("tag", t["location"]["line"]))

    def steps(ss):
        for s in ss:
            out.append(("step", s["location"]["line"]))
            if "dataTable" in s:
                for r in s["dataTable"]["rows"]:
                    out.append(("row", r["location"]["line"]))
            if "docString" in s:
                out.append(("docString", s["docString"]["location"]["line"]))

    def child(c):
        if "background" in c:
            out.append(("background", c["background"]["location"]["line"]))
            steps(c["background"]["steps"])
        elif "scenario" in c:
            sc = c["scenario"]
            out.append(("scenario", sc["location"]["line"]))
            tags(sc["tags"])
            steps(sc["steps"])
            for ex in sc["examples"]:
                out.append(("examples", ex["location"]["line"]))
                tags(ex["tags"])
                if "tableHeader" in ex:
                    out.append(("row", ex["tableHeader"]["location"]["line"]))
                for r in ex["tableBody"]:
                    out.append(("row", r["location"]["line"]))
        else:
            r = c["rule"]
            out.append(("rule", r["location"]["line"]))
            tags(r["tags"])
            for x in r["children"]:
                child(x)

    if not isinstance(doc, dict):
        return [("not-a-document", 0)]
    for cm in doc.get("comments", []):
        out.append(("comment", cm["location"]["line"]))
    f = doc.get("feature")
    if f:
        out.append(("feature", f["location"]["line"]))
        tags(f["tags"])
        for c in f["children"]:
            child(c)
    return sorted(out)


def _kinds_ok(ks):
    return all(0 <= k < NK for k in ks)


def agree1(a: int) -> bool:
    """
    pre: _kinds_ok([a])
    post: _
    """
    return compare(list(PREFIX) + [a][:K], STOP)


def agree2(a: int, b: int) -> bool:
    """
    pre: _kinds_ok([a, b])
    post: _
    """
    return compare(list(PREFIX) + [a, b], STOP)


def agree3(a: int, b: int, c: int) -> bool:
    """
    pre: _kinds_ok([a, b, c])
    post: _
    """
    return compare(list(PREFIX) + [a, b, c], STOP)


def agree4(a: int, b: int, c: int, d: int) -> bool:
    """
    pre: _kinds_ok([a, b, c, d])
    post: _
    """
    return compare(list(PREFIX) + [a, b, c, d], STOP)


def agree5(a: int, b: int, c: int, d: int, e: int) -> bool:
    """
    pre: _kinds_ok([a, b, c, d, e])
    post: _
    """
    return compare(list(PREFIX) + [a, b, c, d, e], STOP)


def twin_never_accepts(a: int, b: int) -> bool:
    """
    pre: _kinds_ok([a, b])
    post: _
    """
    return run_real(list(PREFIX) + [a, b], False)["doc"] is None


def twin_never_rejects(a: int, b: int) -> bool:
    """
    pre: _kinds_ok([a, b])
    post: _
    """
    return run_real(list(PREFIX) + [a, b], False)["doc"] is not None


# ---------------------------------------------------------------- C16: blank / comment line insertion through the real parser

INS = param("ins", pdrive.EMPTY)


def _shift(node, at):
    """line numbers >= at move down by one"""
    if isinstance(node, dict):
        out = {}
        for k, v in node.items():
            if k == "line" and isinstance(v, int):
                out[k] = v + 1 if v >= at else v
            else:
                out[k] = _shift(v, at)
        return out
    if isinstance(node, list):
        return [_shift(x, at) for x in node]
    return node


def insertion_neutral(a: int, b: int) -> bool:
    """
    pre: _kinds_ok([a, b])
    post: _
    """
    # a blank line (or a comment line) inserted directly before line a: the AST only moves line numbers (and gains the comment),
    # errors only move their line.  Stated for positions outside descriptions and doc strings: where the grammar explicitly
    # expects #Empty (blank) resp. where line a is a keyword / step / tag / table-row / delimiter line (comment).
    base = list(PREFIX) + [a, b]
    at = len(PREFIX) + 1
    A = run_real(base, False)
    spec = specparse._run(list(PREFIX), False, specparse.CFG, eof=False)
    c = spec["final"][0] if spec["final"] else None
    if c is None or spec["errors"]:
        return True
    asks_empty = any(t == "#Empty" for (t, _, _, _) in specparse.CFG[c])
    in_doc = spec["final"][1] is not None
    if INS == pdrive.EMPTY:
        if not asks_empty:
            return True
    else:
        if in_doc or a in (pdrive.EMPTY, pdrive.COMMENT, pdrive.OTHER, pdrive.LANGUAGE, pdrive.LANGBAD, pdrive.TAGBAD):
            return True
        if not asks_empty and not any(t == "#Comment" for (t, _, _, _) in specparse.CFG[c]):
            return True
    sym.reach("applicable")
    B = run_real(list(PREFIX) + [INS, a, b], False)
    if (A["doc"] is None) != (B["doc"] is None):
        return False
    if A["doc"] is not None:
        want = _shift(A["doc"], at)
        if INS == pdrive.COMMENT:
            want = dict(want)
            want["comments"] = sorted(list(want["comments"]) + [{"location": {"line": at, "column": 1}, "text": pdrive.TEXT[pdrive.COMMENT]}],
                                      key=lambda cm: cm["location"]["line"])
        return _strip_ids(B["doc"]) == _strip_ids(want)
    ea = [(cls, ln + 1 if ln >= at else ln, payload) for (cls, ln, payload) in A["errors"]]
    return B["errors"] == ea


def _strip_ids(node):
    if isinstance(node, dict):
        return {k: _strip_ids(v) for k, v in node.items()}
    if isinstance(node, list):
        return [_strip_ids(x) for x in node]
    return node


def insertion_neutral1(a: int) -> bool:
    """
    pre: _kinds_ok([a])
    post: _
    """
    return insertion_neutral(a, param("next", pdrive.STEP))
