"""Stream-level harnesses (C17, C11 across documents, C15 reuse through the stream, C01e): the REAL GherkinEvents.enum
(parser + builder + compiler sharing one id generator) on sources rendered from the document model."""
import kit.sym as sym  # noqa
from kit.sym import pick, param

from gherkin.stream.gherkin_events import GherkinEvents
from gherkin.stream.id_generator import IdGenerator
from kit import astgen, specparse, pdrive
from harness import doc as D

POOL = param("pool", ["steps", "BAD", "outline", "titles", "BAD11"])
HOLE = param("hole", "x")
FIX = param("fix", {})
STOP = bool(param("stop", False))
MEDIA = "text/x.cucumber.gherkin+plain"
KEYWORD_TYPES = ("Unknown", "Context", "Action", "Outcome", "Conjunction")
STEP_TYPES = ("Unknown", "Context", "Action", "Outcome")


def source_text(shape, a, start):
    """-> (text, expected AST or None, expected errors or None, writer)"""
    if shape in ("BAD", "BAD11"):
        # a rejected source: an unexpected line after a step, and the document ends inside a data table;
        # BAD11 starts with the same lines and goes on with enough faults to hit the eleven-error limit
        lines = ["Feature: f\n", "  Scenario: s\n", "    Given x\n", "  junk " + a + "\n", "    | t |\n"]
        kinds = [pdrive.FEATURE, pdrive.SCENARIO, pdrive.STEP, pdrive.OTHER, pdrive.ROW1]
        if shape == "BAD11":
            for i in range(11):
                lines.append("  junk%d\n" % i)
                kinds.append(pdrive.OTHER)
        sp = specparse.spec_parse(kinds, False)
        errs = []
        for (cls, line, expd) in sp["errors"]:
            txt = lines[line - 1]
            ind = len(txt) - len(txt.lstrip())
            errs.append({"location": {"line": line, "column": ind + 1},
                         "message": "(" + str(line) + ":" + str(ind + 1) + "): expected: " + ", ".join(expd) + ", got '" + txt.strip() + "'"})
        return "".join(lines), None, errs, None
    saved = D.sym.PARAMS.get("start")
    D.START = start
    try:
        w, exp = D.build(shape, a, "b", "c")
    finally:
        D.START = 0
    return "".join(w.lines), exp, None, w


def valid_message(env):
    """shape validator written from the Cucumber Messages JSON schema (required keys, value types, fixed vocabularies,
    no null anywhere, only dict / list / str / int / bool values)"""
    def plain(v):
        if v is None:
            return False
        if isinstance(v, dict):
            return all(isinstance(k, str) and plain(x) for k, x in v.items())
        if isinstance(v, list):
            return all(plain(x) for x in v)
        return isinstance(v, (str, int, bool))

    def loc(l):
        return isinstance(l, dict) and isinstance(l.get("line"), int) and l["line"] >= 1 and set(l) <= {"line", "column"} and \
            ("column" not in l or (isinstance(l["column"], int) and l["column"] >= 1))

    def tag(t):
        return set(t) == {"id", "location", "name"} and isinstance(t["id"], str) and loc(t["location"]) and isinstance(t["name"], str)

    def row(r):
        return set(r) == {"id", "location", "cells"} and isinstance(r["id"], str) and loc(r["location"]) and \
            all(set(c) == {"location", "value"} and loc(c["location"]) and isinstance(c["value"], str) for c in r["cells"])

    def step(s):
        if not ({"id", "location", "keyword", "keywordType", "text"} <= set(s) <= {"id", "location", "keyword", "keywordType", "text", "dataTable", "docString"}):
            return False
        if s["keywordType"] not in KEYWORD_TYPES or not isinstance(s["text"], str) or not isinstance(s["keyword"], str) or not loc(s["location"]):
            return False
        if "dataTable" in s and not (set(s["dataTable"]) == {"location", "rows"} and all(row(r) for r in s["dataTable"]["rows"])):
            return False
        if "docString" in s:
            d = s["docString"]
            if not ({"location", "content", "delimiter"} <= set(d) <= {"location", "content", "delimiter", "mediaType"}) or not isinstance(d["content"], str):
                return False
        return True

    def scenario(s):
        if set(s) != {"id", "tags", "location", "keyword", "name", "description", "steps", "examples"}:
            return False
        for e in s["examples"]:
            if not ({"id", "tags", "location", "keyword", "name", "description", "tableBody"} <= set(e) <= {"id", "tags", "location", "keyword", "name", "description", "tableHeader", "tableBody"}):
                return False
            if ("tableHeader" in e and not row(e["tableHeader"])) or not all(row(r) for r in e["tableBody"]) or not all(tag(t) for t in e["tags"]):
                return False
        return all(tag(t) for t in s["tags"]) and all(step(x) for x in s["steps"]) and isinstance(s["name"], str) and isinstance(s["description"], str)

    def child(c):
        if set(c) == {"background"}:
            b = c["background"]
            return set(b) == {"id", "location", "keyword", "name", "description", "steps"} and all(step(x) for x in b["steps"])
        if set(c) == {"scenario"}:
            return scenario(c["scenario"])
        if set(c) == {"rule"}:
            r = c["rule"]
            return set(r) == {"id", "tags", "location", "keyword", "name", "description", "children"} and all(child(x) for x in r["children"]) and all(tag(t) for t in r["tags"])
        return False

    if not plain(env) or len(env) != 1:
        return False
    if "source" in env:
        s = env["source"]
        return set(s) == {"uri", "data", "mediaType"} and s["mediaType"] == MEDIA and isinstance(s["data"], str) and isinstance(s["uri"], str)
    if "gherkinDocument" in env:
        g = env["gherkinDocument"]
        if not ({"comments", "uri"} <= set(g) <= {"feature", "comments", "uri"}):
            return False
        if not all(set(c) == {"location", "text"} and loc(c["location"]) and isinstance(c["text"], str) for c in g["comments"]):
            return False
        if "feature" in g:
            f = g["feature"]
            if set(f) != {"tags", "location", "language", "keyword", "name", "description", "children"}:
                return False
            return all(child(c) for c in f["children"]) and all(tag(t) for t in f["tags"]) and loc(f["location"])
        return True
    if "pickle" in env:
        p = env["pickle"]
        if set(p) != {"astNodeIds", "id", "tags", "name", "language", "steps", "uri"}:
            return False
        for s in p["steps"]:
            if not ({"astNodeIds", "id", "type", "text"} <= set(s) <= {"astNodeIds", "id", "type", "text", "argument"}) or s["type"] not in STEP_TYPES:
                return False
        return all(set(t) == {"astNodeId", "name"} for t in p["tags"])
    if "parseError" in env:
        e = env["parseError"]
        return set(e) == {"source", "message"} and set(e["source"]) == {"uri", "location"} and loc(e["source"]["location"]) and isinstance(e["message"], str)
    return False


def stream_agrees(ps: bool, pa: bool, pp: bool, s1: int, s2: int, s3: int) -> bool:
    """
    pre: 0 <= s1 < len(POOL) and 0 <= s2 < len(POOL) and 0 <= s3 < len(POOL)
    pre: ("s1" not in FIX or s1 == FIX["s1"]) and ("ps" not in FIX or bool(ps) == FIX["ps"])
    post: _
    """
    # symbolic: the three print options and which three sources (accepted / rejected, in which order) go through ONE stream
    ps, pa, pp = bool(ps), bool(pa), bool(pp)
    shapes = [pick(s1, POOL), pick(s2, POOL), pick(s3, POOL)]
    a = HOLE
    ge = GherkinEvents(GherkinEvents.Options(print_source=ps, print_ast=pa, print_pickles=pp))
    if STOP:
        ge.parser.stop_at_first_error = True
    seen_ids = []
    kept = []
    with sym.scanner_env(False):
        for i, shape in enumerate(shapes):
            uri = "dir/f%d.feature" % i
            start = ge.id_generator._id_counter
            text, exp_ast, exp_errs, w = source_text(shape, a, start)
            src = {"source": {"uri": uri, "data": text, "mediaType": MEDIA}}
            got = list(ge.enum(src))
            with sym.untraced():
                ok = _compare(got, src, uri, exp_ast, exp_errs, w, ps, pa, pp, seen_ids)
                import copy
                kept.append((got, copy.deepcopy(got)))
            if not ok:
                return False
    # each source's envelopes depend only on that source and the running counter: handling later sources must not
    # change envelopes already yielded
    with sym.untraced():
        for got, snapshot in kept:
            if not astgen.same(got, snapshot):
                return False
    return True


def _compare(got, src, uri, exp_ast, exp_errs, w, ps, pa, pp, seen_ids):
    if True:
        if True:
            for env in got:
                if not valid_message(env):
                    return False
            if exp_errs is not None:
                sym.reach("rejected")
                want = [{"parseError": {"source": {"uri": uri, "location": e["location"]}, "message": e["message"]}} for e in (exp_errs[:1] if STOP else exp_errs)]
                return astgen.same(got, want)
            sym.reach("accepted")
            gd = dict(exp_ast)
            gd["uri"] = uri
            want = []
            if ps:
                want.append(src)
            if pa:
                want.append({"gherkinDocument": gd})
            if pp:
                for p in astgen.ref_compile(gd, w.n):
                    want.append({"pickle": p})
            if not astgen.same(got, want):
                return False
            # C11: ids of the whole stream are pairwise distinct
            for env in got:
                for x in D._collect_ids(env.get("gherkinDocument", {})) + [s["id"] for s in env.get("pickle", {}).get("steps", [])] + \
                        ([env["pickle"]["id"]] if "pickle" in env else []):
                    if x in seen_ids:
                        return False
                    seen_ids.append(x)
            return True


def twin_never_pickle(pp: bool) -> bool:
    """
    post: _
    """
    ge = GherkinEvents(GherkinEvents.Options(print_source=False, print_ast=False, print_pickles=bool(pp)))
    with sym.scanner_env(False):
        text, exp_ast, exp_errs, w = source_text("steps", "x", 0)
        got = list(ge.enum({"source": {"uri": "u", "data": text, "mediaType": MEDIA}}))
    return not any("pickle" in e for e in got)


class _FakeFile:
    def __init__(self, data):
        self.data = data

    def read(self):
        return self.data


def source_event_contract(path: str, data: str) -> bool:
    """
    pre: len(path) <= 2 and len(data) <= 3
    post: _
    """
    # source envelope: uri, the file's text unchanged (opened without newline translation), the Gherkin media type
    import gherkin.stream.source_events as se
    calls = []

    def fake_open(p, encoding=None, newline=None):
        calls.append((p, encoding, newline))
        return _FakeFile(data)

    se.open = fake_open
    try:
        ev = se.source_event(path)
    finally:
        del se.open
    return ev == {"source": {"uri": path, "data": data, "mediaType": MEDIA}} and calls == [(path, "utf8", "")]
