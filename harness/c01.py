"""C01 — the whole pipeline on a fully symbolic source text, and the path-or-text environment branch."""
import kit.sym as sym  # noqa
from kit.sym import pick, param

from gherkin.parser import Parser
from gherkin.pickles.compiler import Compiler
from gherkin.errors import CompositeParserException, ParserException, ParserError

MAXLEN = param("maxlen", 3)
STOP = bool(param("stop", False))
PREFIX = param("text_prefix", "")


ALPHABET = " \t@#|\"`:Ga\\*\r\n<"


def _in_alphabet(text):
    """whole-pipeline texts are drawn from a 15-character alphabet of everything the scanner / matcher distinguishes: error messages
    quote the offending line, and storing a symbolic string in an exception object makes CrossHair enumerate its values one by one,
    so an unconstrained character would never be exhausted (unconstrained Unicode lines are the subject of the line layer)"""
    return all(c in ALPHABET for c in text)


def _located(e):
    loc = getattr(e, "location", None)
    return isinstance(e, ParserException) and isinstance(loc, dict) and isinstance(loc.get("line"), int) and loc["line"] >= 1 and \
        ("column" not in loc or (isinstance(loc["column"], int) and loc["column"] >= 1))


def pipeline_total(text: str) -> bool:
    """
    pre: len(text) <= MAXLEN and _in_alphabet(text)
    post: _
    """
    # any source text: a document, or the library's parser error with 1..11 located errors; compiling a returned document gives a list
    src = PREFIX + text
    p = Parser()
    p.stop_at_first_error = STOP
    with sym.scanner_env(False):
        try:
            doc = p.parse(src)
        except CompositeParserException as e:
            sym.reach("rejected")
            return (not STOP) and 1 <= len(e.errors) <= 11 and all(_located(x) for x in e.errors)
        except ParserException as e:
            sym.reach("rejected")
            return STOP and _located(e)
    sym.reach("accepted")
    if not isinstance(doc, dict):
        return False
    doc["uri"] = "u"
    return isinstance(Compiler().compile(doc), list)


class _Dir:
    def __init__(self, *a, **k):
        raise IsADirectoryError(21, "Is a directory")


def source_text_is_text(text: str, exists: bool) -> bool:
    """
    pre: len(text) <= 1 and _in_alphabet(text)
    pre: not (exists and param("exclude_path_or_text", True))
    post: _
    """
    # environment: os.path.exists answers an arbitrary bool, open() fails like it does for a directory
    import gherkin.token_scanner as ts
    with sym.scanner_env(bool(exists)):
        ts.open = _Dir
        try:
            Parser().parse(text)
        except ParserError:
            return True
        finally:
            del ts.open
    return True


def kf_path_or_text() -> bool:
    """witness of known finding F4 (not a CrossHair condition): a source text that names an existing path is read from disk"""
    try:
        Parser().parse(".")
    except ParserError:
        return True
    return True


def twin_never_accepts(text: str) -> bool:
    """
    pre: len(text) <= 2
    post: _
    """
    with sym.scanner_env(False):
        try:
            Parser().parse(PREFIX + text)
        except CompositeParserException:
            return True
    return False
