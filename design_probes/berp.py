"""Probe: derive an LL automaton from gherkin.berp and compare (explicit product walk) with parser.py tables."""
import re, sys, collections
sys.path.insert(0, "/tmp/probe")

def parse_berp(path):
    txt = open(path, encoding="utf8").read()
    hdr = re.search(r"\[(.*?)\]", txt, re.S).group(1)
    ignored = re.search(r"IgnoredTokens\s*->\s*(.*)", hdr).group(1).strip().split(",")
    body = txt[txt.index("]", txt.index("Namespace")) + 1:]
    rules = collections.OrderedDict()
    tmp = [0]
    for line in body.splitlines():
        line = line.split("//")[0].strip()
        if not line: continue
        m = re.match(r"^(\w+)(!?)\s*(\[[^\]]*\])?\s*:=\s*(.*)$", line)
        assert m, line
        name, bang, hint, rhs = m.groups()
        h = None
        if hint:
            skip, exp = hint[1:-1].split("->")
            h = (skip.split("|"), exp.split("|"))
        elems = []
        for em in re.finditer(r"\(([^)]*)\)([?*+]?)|(#?\w+)([?*+]?)", rhs):
            if em.group(1) is not None:
                alts = [a.strip() for a in em.group(1).split("|")]
                an = "__alt%d" % tmp[0]; tmp[0] += 1
                rules_alt = ("alt", alts)
                elems.append((an, em.group(2) or "1", rules_alt))
            else:
                elems.append((em.group(3), em.group(4) or "1", None))
        rules[name] = dict(bang=bool(bang), hint=h, elems=elems)
    # register alt temp rules
    for r in list(rules.values()):
        for (n, mult, alt) in r["elems"]:
            if alt: rules[n] = dict(bang=False, hint=None, alts=alt[1])
    return rules, ignored

RULES, IGNORED = parse_berp("/repo/gherkin.berp")
START = "GherkinDocument"

def nullable_sym(sym):
    if sym.startswith("#"): return False
    r = RULES[sym]
    if "alts" in r: return any(nullable_sym(a) for a in r["alts"])
    return all(mult in "?*" or nullable_sym(n) for (n, mult, _) in r["elems"])

def firsts(sym, stack, prods, hints):
    """yield (token, new_stack_after_token, prods, hints) for entering symbol `sym` (stack = frames tuple)"""
    if sym.startswith("#"):
        yield (sym, stack, prods + [("build",)], hints)
        return
    r = RULES[sym]
    p2 = prods + ([("start_rule", sym)] if r["bang"] else [])
    h2 = hints + ([r["hint"]] if r["hint"] else [])
    if "alts" in r:
        for i, a in enumerate(r["alts"]):
            yield from firsts(a, stack + ((sym, i),), p2, h2)
        return
    for i, (n, mult, _) in enumerate(r["elems"]):
        yield from firsts(n, stack + ((sym, i),), p2, h2)
        if not (mult in "?*" or nullable_sym(n)): break

def after(stack, prods):
    """options after the symbol at top frame of stack has been completed. stack frames: (rule, idx)."""
    if not stack:
        yield ("#EOF", (), prods + [("build",)], [])
        return
    rule, idx = stack[-1]
    r = RULES[rule]
    base = stack[:-1]
    if "alts" in r:
        # alternative group done -> group symbol done in parent
        yield from after(base, prods)   # temp rules never bang
        return
    n, mult, _ = r["elems"][idx]
    if mult in "*+":
        yield from firsts(n, base + ((rule, idx),), prods, [])  # repeat
    j = idx + 1
    while j < len(r["elems"]):
        n2, m2, _ = r["elems"][j]
        yield from firsts(n2, base + ((rule, j),), prods, [])
        if not (m2 in "?*" or nullable_sym(n2)): return
        j += 1
    yield from after(base, prods + ([("end_rule", rule)] if r["bang"] else []))

def options(config):
    if config == "START":
        opts = list(firsts(START, (), [], []))   # start_rule(GherkinDocument) is done by parse() itself
        opts = [(t, s, [p for p in pr if p != ("start_rule", START)], h) for (t, s, pr, h) in opts]
        if nullable_sym(START): opts.append(("#EOF", "END", [("build",)], []))
    else:
        opts = []
        for (t, s, pr, h) in after(config, []):
            if t == "#EOF":
                pr = [p for p in pr if p != ("end_rule", START)]
                s = "END"
            opts.append((t, s, pr, h))
    # the hint applies only when the token is in the hint's skip set
    out = []
    for (t, s, pr, h) in opts:
        la = None
        for hh in h:
            if t in hh[0]: la = (tuple(hh[0]), tuple(hh[1]))
        out.append((t, la, pr, s))
    toks = [t for (t, _, _, _) in out]
    if "#Other" not in toks:
        for ig in IGNORED:
            if ig not in toks: out.append((ig, None, [("build",)], config))
    return out

def token_config(stack_after):  # config identified by the stack including the token frame
    return stack_after

def build():
    configs = {}
    todo = ["START"]
    while todo:
        c = todo.pop()
        if c in configs: continue
        configs[c] = options(c)
        for (t, la, pr, s) in configs[c]:
            if s != "END" and s not in configs: todo.append(s)
    return configs

if __name__ == "__main__":
    cfg = build()
    print("configs", len(cfg), "transitions", sum(len(v) for v in cfg.values()))
    import ext
    P = ext.states
    LA = {"lookahead_0": (("#Empty", "#Comment", "#TagLine"), ("#ScenarioLine",)), "lookahead_1": (("#Empty", "#Comment", "#TagLine"), ("#ExamplesLine",))}
    KINDS = ["#EOF","#Empty","#Comment","#TagLine","#FeatureLine","#RuleLine","#BackgroundLine","#ScenarioLine","#ExamplesLine","#StepLine","#DocStringSeparator","#TableRow","#Language","#Other"]
    def impl_step(s, kind, la_out):
        # own kind semantic: own kind first, Language implies Comment, Other fallback
        cands = [kind] + (["#Comment"] if kind == "#Language" else []) + (["#Other"] if kind not in ("#EOF", "#Other") else [])
        for (mk, la, prods, tgt) in P[s]["trans"]:
            k = "#" + mk[len("match_"):]
            if k in cands:
                # respects order among candidates? impl order decides; emulate exactly:
                pass
        # emulate exact ordered semantics with match vector = cands
        for (mk, la, prods, tgt) in P[s]["trans"]:
            k = "#" + mk[len("match_"):]
            if k in cands:
                if la is not None and not la_out[LA[la]]: continue
                return ("ok", [tuple(p) for p in prods], tgt)
        return ("err", tuple(P[s]["expected"]), s)
    def oracle_step(c, kind, la_out):
        cands = [kind] + (["#Comment"] if kind == "#Language" else []) + (["#Other"] if kind not in ("#EOF", "#Other") else [])
        # priority: own kind, then Comment (for Language), then Other
        for want in cands:
            for (t, la, pr, s) in cfg[c]:
                if t == want:
                    if la is not None and not la_out[la]: continue
                    return ("ok", [tuple(p) for p in pr], s)
        return ("err", tuple(dict.fromkeys(t for (t, _, _, _) in cfg[c])), c)
    import itertools
    seen = {}
    todo = [(0, "START")]
    mism = 0
    while todo:
        s, c = todo.pop()
        if (s, c) in seen: continue
        seen[(s, c)] = True
        for kind in KINDS:
            for b0, b1 in itertools.product([False, True], repeat=2):
                la_out = {LA["lookahead_0"]: b0, LA["lookahead_1"]: b1}
                a = impl_step(s, kind, la_out); b = oracle_step(c, kind, la_out)
                if a[0] != b[0] or (a[0] == "ok" and a[1] != b[1]) or (a[0] == "err" and set(a[1]) != set(b[1])):
                    mism += 1
                    if mism < 12: print("MISMATCH", s, c if c == "START" else c[-3:], kind, b0, b1, a, b)
                    continue
                if a[0] == "ok":
                    ns, nc = a[2], b[2]
                    if (ns == 34) != (nc == "END"):
                        mism += 1; print("END mismatch", s, kind); continue
                    if ns != 34: todo.append((ns, nc))
    print("pairs", len(seen), "impl states", len(set(s for s, _ in seen)), "oracle configs", len(set(c for _, c in seen)), "mismatches", mism)
    # expected-list order check
    bad = 0
    for (s, c) in seen:
        exp_o = list(dict.fromkeys(t for (t, _, _, _) in cfg[c]))
        # berp order: EOF first, Other last
        exp_o = [t for t in exp_o if t == "#EOF"] + [t for t in exp_o if t not in ("#EOF", "#Other")] + [t for t in exp_o if t == "#Other"]
        if exp_o != P[s]["expected"]:
            bad += 1
            if bad < 5: print("ORDER", s, exp_o, P[s]["expected"])
    print("expected-list order mismatches", bad)
