import json
from gherkin.gherkin_line import GherkinLine
from gherkin.token import Token
from gherkin.token_matcher import TokenMatcher
D = json.load(open('/repo/gherkin-languages.json', encoding='utf8'))
titles = {"feature":"match_FeatureLine","rule":"match_RuleLine","background":"match_BackgroundLine","scenario":"match_ScenarioLine","scenarioOutline":"match_ScenarioLine","examples":"match_ExamplesLine"}
steps = ["given","when","then","and","but"]
TY = {"given":"Context","when":"Action","then":"Outcome","and":"Conjunction","but":"Conjunction"}
bad = 0; n = 0
for name, d in D.items():
    tm = TokenMatcher(name)
    for cat, fn in titles.items():
        for k in d[cat]:
            for line in (k + ": x\n", "  " + k + ":\n", "\t" + k + ":x  \r\n"):
                tok = Token(GherkinLine(line, 1), {"line": 1}); n += 1
                ok = getattr(tm, fn)(tok)
                # oracle: first keyword in category order (scenario then outline for ScenarioLine)
                cats = [c for c, f in titles.items() if f == fn]
                exp = next(kk for c in cats for kk in d[c] if line.lstrip().startswith(kk + ":"))
                if not ok or tok.matched_keyword != exp or tok.matched_text != "x" * ("x" in line) or tok.location["column"] != len(line) - len(line.lstrip()) + 1:
                    bad += 1; print("TITLE", name, cat, repr(k), ok, tok.matched_keyword, repr(tok.matched_text))
    allsteps = [k for c in steps for k in d[c]]
    for cat in steps:
        for k in d[cat]:
            line = " " + k + "x y \n"
            tok = Token(GherkinLine(line, 1), {"line": 1}); n += 1
            ok = tm.match_StepLine(tok)
            exp = next(kk for kk in allsteps if line.lstrip().startswith(kk))
            cnt = [TY[c] for c in steps for kk in d[c] if kk == exp]
            ety = cnt[0] if len(cnt) == 1 else "Unknown"
            if not ok or tok.matched_keyword != exp or tok.matched_keyword_type != ety or tok.matched_text != line.lstrip()[len(exp):].strip():
                bad += 1; print("STEP", name, cat, repr(k), ok, repr(tok.matched_keyword), tok.matched_keyword_type, ety)
print(n, bad)
