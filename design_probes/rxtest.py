import re, itertools, rx
pats = [r"^\s*#\s*language\s*:\s*([a-zA-Z\-_]+)\s*$", r"^[^\S\n]*", r"[^\S\n]*$", r"\s#", r"[^\S+]", r"\\", "^(\\s*[*+-]\\s*)(Given |When |\\* )(.*)", "^(#{1,6}\\s)(Feature|Business Need|Ability):(.*)", "^\\s\\s\\s?\\s?\\s?\\|", "^:?-+:?$", "`(@[^`]+)`", "<a.b>", "<>"]
alpha = " \n#a:|\\-`@*<>.+lG"
bad = 0; n = 0
for p in pats:
    rp = re.compile(p); xp = rx.compile(p)
    for L in range(0, 5):
        for t in itertools.product(alpha, repeat=L):
            s = "".join(t)
            for extra in ("", ) :
                a = rp.search(s); b = xp.search(s)
                n += 1
                if (a is None) != (b is None) or (a and (a.span() != b.span() or a.groups() != tuple(b.group(i+1) for i in range(rp.groups)))):
                    bad += 1
                    if bad < 10: print("SEARCH", repr(p), repr(s), a, b and b.span())
                if rp.sub("X", s) != xp.sub("X", s):
                    bad += 1
                    if bad < 10: print("SUB", repr(p), repr(s), rp.sub("X", s), xp.sub("X", s))
                if rp.split(s, maxsplit=2) != xp.split(s, maxsplit=2):
                    bad += 1
                    if bad < 10: print("SPLIT", repr(p), repr(s), rp.split(s, maxsplit=2), xp.split(s, maxsplit=2))
print("checked", n, "bad", bad)
