import chfix, rx
import gherkin.gherkin_line as gl_mod
import gherkin.token_matcher as tm_mod
gl_mod.re = rx
tm_mod.re = rx
from gherkin.gherkin_line import GherkinLine
from gherkin.token import Token
from gherkin.token_matcher import TokenMatcher
TokenMatcher.LANGUAGE_RE = rx.compile(TokenMatcher.LANGUAGE_RE.pattern)
TM = TokenMatcher("en")

def cells_ok(line: str) -> bool:
    """
    pre: len(line) <= 4
    pre: chr(10) not in line
    post: _
    """
    g = GherkinLine(line, 1)
    if not g.startswith("|"):
        return True
    for c in g.table_cells:
        t = c["text"]
        col = c["column"]
        if t and (t[0] in " \t" or t[-1] in " \t"):
            return False
        if col < 1 or col > len(line) + 1:
            return False
    return True

def lang_ok(line: str) -> bool:
    """
    pre: len(line) <= 2
    pre: chr(10) not in line
    raises: Exception
    post: _
    """
    tok = Token(GherkinLine("# language:" + line, 1), {"line": 1})
    r = TM.match_Language(tok)
    return (not r) or tok.matched_text == line.strip()
