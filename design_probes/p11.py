import chfix
def b1(s: str) -> bool:
    """
    pre: len(s) == 1
    post: _
    """
    x = s + "\n"
    return x[:-1] == s

def a1(s: str) -> bool:
    """
    pre: len(s) <= 3
    post: _
    """
    x = "Given " + s + "\n"
    t = x.lstrip()
    return t[6:].strip() == s.strip()

def a1bad(s: str) -> bool:
    """
    pre: len(s) <= 3
    post: _
    """
    x = "Given " + s + "\n"
    t = x.lstrip()
    return t[6:].strip() == s.lstrip()
