import itertools, glob, copy, json
from gherkin.parser import Parser
from gherkin.errors import ParserError, CompositeParserException
from gherkin.pickles.compiler import Compiler
from gherkin.ast_builder import AstBuilder
from gherkin.stream.id_generator import IdGenerator

def run(text):
    idg = IdGenerator()
    try:
        doc = Parser(AstBuilder(idg)).parse(text)
    except CompositeParserException as e:
        return ("ERR", [(x.location, str(x)) for x in e.errors])
    doc["uri"] = "u"
    return ("OK", doc, Compiler(idg).compile(doc))

# --- docstrings
pool = ['', '  ', 'Given x', '@tag', '# c', '| a |', '"""', '```', '  """x', ' ```', 'Feature: f', '\\"\\"\\"', '\\`\\`\\`', 'Examples:', '    deep', 'x']
bad = 0; n = 0
for delim, other in (('"""', '```'), ('```', '"""')):
    for ind in (0, 2, 4):
        for mt in ('', 'json', ' m t '):
            for content in itertools.product(pool, repeat=2):
                if any(c.lstrip().startswith(delim) for c in content): continue
                lines = ["Feature: f", "  Scenario: s", "    Given a", " " * ind + delim + mt] + list(content) + [" " * ind + delim + "  ", "    Then b"]
                r = run("\n".join(lines) + "\n"); n += 1
                if r[0] != "OK": bad += 1; print("ERR", lines, r[1][:1]); continue
                steps = r[1]["feature"]["children"][0]["scenario"]["steps"]
                exp = []
                for c in content:
                    ci = len(c) - len(c.lstrip())
                    t = c.lstrip() if ci < ind else c[ind:]
                    esc = '\\"\\"\\"' if delim == '"""' else '\\`\\`\\`'
                    exp.append(t.replace(esc, delim))
                ds = steps[0].get("docString")
                ok = len(steps) == 2 and ds and ds["content"] == "\n".join(exp) and ds["delimiter"] == delim and ds.get("mediaType") == (mt.strip() or None) and ds["location"] == {"line": 4, "column": ind + 1} and steps[1]["text"] == "b"
                if not ok:
                    bad += 1
                    if bad < 8: print("DOC", lines, ds)
print("docstrings", n, bad)

# --- layout on corpus
def strip_loc(o):
    if isinstance(o, dict): return {k: strip_loc(v) for k, v in o.items() if k != "location"}
    if isinstance(o, list): return [strip_loc(x) for x in o]
    return o
bad = 0; n = 0
for f in sorted(glob.glob("/repo/testdata/good/*.feature") + glob.glob("/repo/testdata/bad/*.feature")):
    text = open(f, encoding="utf8", newline="").read()
    if "\r" in text: continue
    base = run(text)
    crlf = run(text.replace("\n", "\r\n")); n += 1
    if json.dumps(base, default=str) != json.dumps(crlf, default=str):
        bad += 1; print("CRLF", f)
    nofinal = run(text.rstrip("\n")); n += 1
    if base[0] == "OK" and (nofinal[0] != "OK" or nofinal[1] != base[1]):
        bad += 1; print("NOFINAL", f)
print("layout", n, bad)
