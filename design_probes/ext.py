import ast, sys, json
src = open("/repo/python/gherkin/parser.py").read()
tree = ast.parse(src)
cls = [n for n in tree.body if isinstance(n, ast.ClassDef) and n.name == "Parser"][0]
states = {}
def call_name(c):
    # self.match_X(context, token)
    assert isinstance(c, ast.Call) and isinstance(c.func, ast.Attribute) and isinstance(c.func.value, ast.Name) and c.func.value.id == "self", ast.dump(c)
    return c.func.attr
for fn in cls.body:
    if isinstance(fn, ast.FunctionDef) and fn.name.startswith("match_token_at_"):
        n = int(fn.name.rsplit("_", 1)[1])
        trans = []
        tail = None
        for i, st in enumerate(fn.body):
            if isinstance(st, ast.If):
                kind = call_name(st.test)
                body = st.body
                la = None
                if len(body) == 1 and isinstance(body[0], ast.If):
                    la = call_name(body[0].test)
                    body = body[0].body
                prods = []
                for b in body[:-1]:
                    c = b.value
                    nm = call_name(c)
                    if nm in ("start_rule", "end_rule"):
                        prods.append((nm, c.args[1].value))
                    else:
                        assert nm == "build"
                        prods.append(("build",))
                assert isinstance(body[-1], ast.Return)
                trans.append((kind, la, prods, body[-1].value.value))
            else:
                tail = fn.body[i:]
                break
        exp = [s for s in tail if isinstance(s, ast.Assign) and s.targets[0].id == "expected_tokens"][0]
        expected = [e.value for e in exp.value.elts]
        ret = tail[-1].value.value
        states[n] = dict(trans=trans, expected=expected, stay=ret)
if __name__ == "__main__": print(len(states), sum(len(s["trans"]) for s in states.values()))
if __name__ == "__main__": print(states[12])
la = [(n, t) for n, s in states.items() for t in s["trans"] if t[1]]
if __name__ == "__main__": print(len(la))
# states with Other
if __name__ == "__main__": print([n for n,s in states.items() if any(t[0]=="match_Other" for t in s["trans"])])
if __name__ == "__main__": print([n for n,s in states.items() if not any(t[0]=="match_Comment" for t in s["trans"])])
