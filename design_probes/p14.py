import chfix
from p6 import LineScanner
from gherkin.parser import Parser
from gherkin.ast_builder import AstBuilder
from gherkin.pickles.compiler import Compiler
from gherkin.stream.id_generator import IdGenerator
from gherkin.errors import ParserError

def plain(s: str) -> bool:
    return all(c in "abxy<>. " for c in s)

def outline(h: str, v: str, t: str) -> bool:
    """
    pre: len(h) <= 2 and len(v) <= 2 and len(t) <= 4
    pre: plain(h) and plain(v) and plain(t)
    pre: h == h.strip() and v == v.strip() and t == t.strip() and len(t) > 0
    pre: "<" not in h and ">" not in h
    post: _
    """
    lines = [
        "Feature: f\n",
        "  Background:\n",
        "    Given b\n",
        "  Scenario Outline: s\n",
        "    When " + t + "\n",
        "    Examples:\n",
        "      | " + h + " |\n",
        "      | " + v + " |\n",
    ]
    idg = IdGenerator()
    try:
        doc = Parser(AstBuilder(idg)).parse(LineScanner(lines))
    except ParserError:
        return False
    doc["uri"] = "u"
    ps = Compiler(idg).compile(doc)
    if len(ps) != 1:
        return False
    got = ps[0]["steps"][1]["text"]
    exp = t.replace("<" + h + ">", v)
    return got == exp
