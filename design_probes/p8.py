def a1(s: str) -> bool:
    """
    pre: len(s) == 1
    post: _
    """
    x = s + "\n"
    return x.strip() == s.strip()

def a2(s: str) -> bool:
    """
    pre: len(s) == 1
    post: _
    """
    x = s + "\n"
    return x.rstrip() == s.rstrip()

def a3(s: str) -> bool:
    """
    pre: len(s) == 1
    post: _
    """
    x = "ab" + s
    return x[2:] == s

def a4(s: str) -> bool:
    """
    pre: len(s) == 1
    post: _
    """
    x = "ab" + s
    return x[2:].strip() == s.strip()

def a5(s: str) -> bool:
    """
    pre: len(s) == 1
    post: _
    """
    x = " " + s
    return x.lstrip() == s.lstrip()
