import chfix
from typing import List
from p17 import build, ref_types, KT
from gherkin.pickles.compiler import Compiler
from gherkin.stream.id_generator import IdGenerator

def t1(a: str, outline: bool) -> bool:
    """
    pre: len(a) <= 12
    post: _
    """
    doc = build([], [a], outline, "x")
    pickles = Compiler(IdGenerator()).compile(doc)
    got = [s["type"] for s in pickles[0]["steps"]]
    got = ["Unknown" if g is None else g for g in got]
    return got == ref_types([], [a])

def t2(a: int, b: int, c: int, outline: bool) -> bool:
    """
    pre: 0 <= a < 5 and 0 <= b < 5 and 0 <= c < 5
    post: _
    """
    ka = "Conjunction" if a == 3 else ("Context" if a == 0 else "Action" if a == 1 else "Outcome" if a == 2 else "Unknown")
    kb = "Conjunction" if b == 3 else ("Context" if b == 0 else "Action" if b == 1 else "Outcome" if b == 2 else "Unknown")
    kc = "Conjunction" if c == 3 else ("Context" if c == 0 else "Action" if c == 1 else "Outcome" if c == 2 else "Unknown")
    doc = build([ka], [kb, kc], outline, "x")
    pickles = Compiler(IdGenerator()).compile(doc)
    got = [s["type"] for s in pickles[0]["steps"]]
    got = ["Unknown" if g is None else g for g in got]
    return got == ref_types([ka], [kb, kc])
