"""Tiny backtracking regex engine over sre_parse trees; pure Python so it can run on symbolic strings."""
import re as _re
try:
    import re._parser as sre_parse
    import re._constants as sre_c
except ImportError:  # py<3.11
    import sre_parse, sre_constants as sre_c

MAXREPEAT = sre_c.MAXREPEAT

def _cat(cat, ch):
    n = str(cat)
    if n == "CATEGORY_SPACE": return ch.isspace()
    if n == "CATEGORY_NOT_SPACE": return not ch.isspace()
    if n == "CATEGORY_DIGIT": return ch.isdecimal()
    if n == "CATEGORY_NOT_DIGIT": return not ch.isdecimal()
    if n == "CATEGORY_WORD": return ch.isalnum() or ch == "_"
    if n == "CATEGORY_NOT_WORD": return not (ch.isalnum() or ch == "_")
    raise NotImplementedError(n)

def _in(items, ch):
    neg = False
    res = False
    for op, av in items:
        op = str(op)
        if op == "NEGATE": neg = True
        elif op == "LITERAL":
            if ord(ch) == av: res = True
        elif op == "RANGE":
            if av[0] <= ord(ch) <= av[1]: res = True
        elif op == "CATEGORY":
            if _cat(av, ch): res = True
        else: raise NotImplementedError(op)
    return res != neg

def _m(nodes, i, s, pos, groups, k):
    """match nodes[i:] at pos; call continuation k(pos, groups) -> result or None"""
    if i == len(nodes):
        return k(pos, groups)
    op, av = nodes[i]
    opn = str(op)
    n = len(s)
    if opn == "LITERAL":
        if pos < n and ord(s[pos]) == av: return _m(nodes, i+1, s, pos+1, groups, k)
        return None
    if opn == "NOT_LITERAL":
        if pos < n and ord(s[pos]) != av: return _m(nodes, i+1, s, pos+1, groups, k)
        return None
    if opn == "ANY":
        if pos < n and s[pos] != "\n": return _m(nodes, i+1, s, pos+1, groups, k)
        return None
    if opn == "IN":
        if pos < n and _in(av, s[pos]): return _m(nodes, i+1, s, pos+1, groups, k)
        return None
    if opn == "AT":
        a = str(av)
        if a == "AT_BEGINNING":
            ok = pos == 0
        elif a == "AT_END":
            ok = pos == n or (pos == n - 1 and s[pos] == "\n")
        else: raise NotImplementedError(a)
        return _m(nodes, i+1, s, pos, groups, k) if ok else None
    if opn == "SUBPATTERN":
        gid, af, df, sub = av
        sub = list(sub)
        start = pos
        def k2(p, g):
            g2 = dict(g)
            if gid is not None: g2[gid] = (start, p)
            return _m(nodes, i+1, s, p, g2, k)
        return _m(sub, 0, s, pos, groups, k2)
    if opn == "BRANCH":
        for alt in av[1]:
            r = _m(list(alt), 0, s, pos, groups, lambda p, g: _m(nodes, i+1, s, p, g, k))
            if r is not None: return r
        return None
    if opn in ("MAX_REPEAT", "MIN_REPEAT"):
        lo, hi, sub = av
        sub = list(sub)
        greedy = opn == "MAX_REPEAT"
        def rep(count, p, g):
            def more():
                if hi != MAXREPEAT and count >= hi: return None
                def k3(p2, g2):
                    if p2 == p and count >= lo: return None  # no progress
                    return rep(count+1, p2, g2)
                return _m(sub, 0, s, p, g, k3)
            def stop():
                if count < lo: return None
                return _m(nodes, i+1, s, p, g, k)
            if greedy:
                r = more()
                return r if r is not None else stop()
            r = stop()
            return r if r is not None else more()
        return rep(0, pos, groups)
    raise NotImplementedError(opn)

class Match:
    def __init__(self, s, start, end, groups, ngroups):
        self.string = s; self._s = start; self._e = end; self._g = groups; self._n = ngroups
    def start(self, g=0): return self._s if g == 0 else self._g.get(g, (-1, -1))[0]
    def end(self, g=0): return self._e if g == 0 else self._g.get(g, (-1, -1))[1]
    def span(self, g=0): return (self.start(g), self.end(g))
    def group(self, g=0):
        if g == 0: return self.string[self._s:self._e]
        if g not in self._g: return None
        a, b = self._g[g]; return self.string[a:b]

class Pattern:
    def __init__(self, pattern, flags=0):
        self.pattern = pattern; self.flags = flags
        p = sre_parse.parse(pattern, flags)
        self._nodes = list(p); self.groups = p.state.groups - 1
    def _at(self, s, pos, full=False):
        def k(p, g):
            if full and p != len(s): return None
            return (p, g)
        r = _m(self._nodes, 0, s, pos, {}, k)
        if r is None: return None
        return Match(s, pos, r[0], r[1], self.groups)
    def match(self, s, pos=0): return self._at(s, pos)
    def fullmatch(self, s): return self._at(s, 0, True)
    def search(self, s, pos=0):
        p = pos
        while p <= len(s):
            m = self._at(s, p)
            if m is not None: return m
            p += 1
        return None
    def finditer(self, s):
        pos = 0
        while pos <= len(s):
            m = self.search(s, pos)
            if m is None: return
            yield m
            pos = m.end() + 1 if m.end() == m.start() else m.end()
    def sub(self, repl, s, count=0):
        out = ""; pos = 0; n = 0
        while pos <= len(s) and (count == 0 or n < count):
            m = self.search(s, pos)
            if m is None: break
            a, b = m.span()
            out += s[pos:a] + _expand(repl, m)
            n += 1
            if a == b:
                if a < len(s): out += s[a]
                pos = a + 1
            else:
                pos = b
        return out + s[pos:]
    def split(self, s, maxsplit=0):
        out = []; pos = 0; last = 0; n = 0
        while pos <= len(s) and (maxsplit == 0 or n < maxsplit):
            m = self.search(s, pos)
            if m is None: break
            a, b = m.span()
            if a == b:
                if a >= len(s): break
                # empty matches split too (py>=3.7) but never at... keep simple: treat like CPython
                out.append(s[last:a]); last = a; pos = a + 1; n += 1
                continue
            out.append(s[last:a])
            for g in range(1, self.groups + 1): out.append(m.group(g))
            last = b; pos = b; n += 1
        out.append(s[last:])
        return out

def _expand(repl, m):
    if callable(repl): return repl(m)
    out = ""; i = 0
    while i < len(repl):
        c = repl[i]
        if c == "\\" and i + 1 < len(repl):
            d = repl[i+1]
            if d == "\\": out += "\\"; i += 2; continue
            if d == "n": out += "\n"; i += 2; continue
            if d.isdigit(): out += m.group(int(d)) or ""; i += 2; continue
            raise _re.error("bad escape \\" + d)
        out += c; i += 1
    return out

def compile(p, flags=0): return p if isinstance(p, Pattern) else Pattern(p, flags)
def sub(p, repl, s, count=0, flags=0): return compile(p, flags).sub(repl, s, count)
def split(p, s, maxsplit=0, flags=0): return compile(p, flags).split(s, maxsplit)
def search(p, s, flags=0): return compile(p, flags).search(s)
def match(p, s, flags=0): return compile(p, flags).match(s)
def finditer(p, s, flags=0): return compile(p, flags).finditer(s)
escape = _re.escape
error = _re.error
U = _re.U; UNICODE = _re.UNICODE
