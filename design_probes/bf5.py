import glob, json, re, copy
from bf4 import run, strip_loc
from gherkin.parser import Parser
from gherkin.token_formatter_builder import TokenFormatterBuilder

def kinds(text):
    try:
        out = Parser(TokenFormatterBuilder()).parse(text)
    except Exception:
        return None
    ks = []
    for l in out.split("\n"):
        if l == "EOF": break
        m = re.match(r"\(\d+:\d+\)(\w+):", l)
        if not m: return None
        ks.append(m.group(1))
    return ks

def shift_lines(o, at, by=1):
    if isinstance(o, dict):
        r = {k: shift_lines(v, at, by) for k, v in o.items()}
        if set(o.keys()) <= {"line", "column"} and "line" in o and o["line"] >= at: r["line"] = o["line"] + by
        return r
    if isinstance(o, (list, tuple)): return [shift_lines(x, at, by) for x in o]
    return o

KW = {"FeatureLine","RuleLine","BackgroundLine","ScenarioLine","ExamplesLine","StepLine","TagLine","TableRow","DocStringSeparator"}
bad = 0; n = 0
for f in sorted(glob.glob("/repo/testdata/good/*.feature")):
    text = open(f, encoding="utf8", newline="").read()
    if "\r" in text: continue
    lines = text.split("\n")
    ks = kinds(text)
    if ks is None: continue
    base = run(text)
    if base[0] != "OK": continue
    indoc = False
    for i, k in enumerate(ks):
        if k == "DocStringSeparator": indoc = not indoc
        if k not in KW: continue
        # trailing blanks
        l2 = list(lines); l2[i] = l2[i] + " \t "
        r = run("\n".join(l2)); n += 1
        if json.dumps(r, default=str) != json.dumps(base, default=str):
            bad += 1; print("TRAIL", f, i + 1, repr(lines[i]))
        # blank line before (outside docstring content; before an opening delimiter or non-delimiter)
        opening = (k == "DocStringSeparator" and indoc)
        if k != "DocStringSeparator" or opening:
            prevk = ks[i-1] if i else None
            # skip if previous context is a description (Other lines) -> blank would join description
            l3 = lines[:i] + [""] + lines[i:]
            r = run("\n".join(l3)); n += 1
            exp = shift_lines(copy.deepcopy(base), i + 1)
            if prevk != "Other" and json.dumps(list(r), default=str) != json.dumps(list(exp), default=str):
                bad += 1; print("BLANK", f, i + 1, repr(lines[i]), prevk)
            # comment line before
            l4 = lines[:i] + ["# zz"] + lines[i:]
            r = run("\n".join(l4)); n += 1
            if r[0] != "OK": bad += 1; print("COMMENT-ERR", f, i + 1); continue
            exp = shift_lines(copy.deepcopy(base), i + 1)
            exp[1]["comments"] = sorted(exp[1]["comments"] + [{"location": {"line": i + 1, "column": 1}, "text": "# zz"}], key=lambda c: c["location"]["line"])
            if json.dumps(strip_ids(r[1]) if False else r[1], default=str) != json.dumps(exp[1], default=str) and prevk != "Other":
                bad += 1
                if bad < 20: print("COMMENT", f, i + 1, repr(lines[i]), prevk)
print(n, bad)
