import itertools
from gherkin.gherkin_line import GherkinLine

def raw_cells(trim):
    # spec: texts between consecutive unescaped pipes, as raw slices (start,end) in trim
    pipes = []
    i = 0
    while i < len(trim):
        if trim[i] == "\\": i += 2; continue
        if trim[i] == "|": pipes.append(i)
        i += 1
    return [(a+1, b) for a, b in zip(pipes, pipes[1:])]

def unesc(raw):
    out = ""; i = 0
    while i < len(raw):
        if raw[i] == "\\" and i + 1 < len(raw):
            d = raw[i+1]
            out += "\n" if d == "n" else d if d in "|\\" else "\\" + d
            i += 2
        else:
            out += raw[i]; i += 1
    return out

def blank(c): return c.isspace() and c != "\n"
bad = 0; n = 0
alpha = "|\\n ax\t"
for L in range(1, 8):
    for t in itertools.product(alpha, repeat=L):
        s = "".join(t)
        for ind in ("", "  ", "\t"):
            line = ind + s + "\n"
            g = GherkinLine(line, 1)
            if not g.startswith("|"): continue
            n += 1
            trim = line.lstrip().strip()  # as code
            cells = g.table_cells
            spans = raw_cells(line.strip()) if False else raw_cells(trim)
            exp = []
            for a, b in spans:
                raw = trim[a:b]
                # strip raw blanks (raw chars; escapes "\n" are 2 raw chars and not blank)
                aa, bb = a, b
                while aa < bb and blank(trim[aa]): aa += 1
                while bb > aa and blank(trim[bb-1]) and not (bb-2 >= aa and trim[bb-2] == "\\" and False): bb -= 1
                exp.append((unesc(trim[aa:bb]), (len(line) - len(line.lstrip())) + aa + 1))
            got = [(c["text"], c["column"]) for c in cells]
            if got != exp:
                bad += 1
                if bad <= 15: print(repr(line), got, exp)
print(n, bad)
