import itertools, re
from gherkin.gherkin_line import GherkinLine
from gherkin.errors import ParserException
bad = 0; n = 0
alpha = "@# ab\t"
for L in range(1, 8):
    for t in itertools.product(alpha, repeat=L):
        s = "".join(t)
        for ind in ("", " "):
            line = ind + s + "\n"
            g = GherkinLine(line, 3)
            if not g.startswith("@"): continue
            n += 1
            # spec: tag line = tags separated by whitespace; comment starts at whitespace+'#'
            indent = len(line) - len(line.lstrip())
            trim = line.strip()
            m = re.search(r"\s#", trim)
            body = trim[:m.start()] if m else trim
            # tags: each '@' starts a tag which extends to next '@' (trimmed)
            exp = []; err = None
            pos = [i for i, c in enumerate(body) if c == "@"]
            for a, b in zip(pos, pos[1:] + [len(body)]):
                name = body[a:b].rstrip()
                if any(c.isspace() for c in name):
                    err = indent + a + 1; break
                exp.append((name, indent + a + 1))
            try:
                got = [(c["text"], c["column"]) for c in g.tags]; gerr = None
            except ParserException as e:
                got = None; gerr = e.location["column"]
            if err is not None:
                ok = gerr == err
            else:
                ok = got == exp
            if not ok:
                bad += 1
                if bad <= 15: print(repr(line), got, gerr, exp, err)
print(n, bad)
