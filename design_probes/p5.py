from typing import List
from gherkin.pickles.compiler import Compiler
from gherkin.stream.id_generator import IdGenerator

KT = ["Context", "Action", "Outcome", "Conjunction", "Unknown"]

def mkstep(i: int, kt: int, text: str):
    return {"id": "s%d" % i, "location": {"line": 1, "column": 1}, "keyword": "K ", "keywordType": KT[kt], "text": text}

def build(bg: List[int], sc: List[int], outline: bool, t1: str):
    n = 0
    children = []
    if bg:
        steps = []
        for k in bg:
            steps.append(mkstep(n, k, "b")); n += 1
        children.append({"background": {"id": "bg", "location": {"line":1,"column":1}, "keyword":"Background","name":"","description":"","steps":steps}})
    steps = []
    for k in sc:
        steps.append(mkstep(n, k, t1)); n += 1
    examples = []
    if outline:
        examples = [{"id":"ex","location":{"line":1,"column":1},"tags":[],"keyword":"Examples","name":"","description":"",
                     "tableHeader":{"id":"h","location":{"line":1,"column":1},"cells":[{"location":{"line":1,"column":1},"value":"a"}]},
                     "tableBody":[{"id":"r","location":{"line":1,"column":1},"cells":[{"location":{"line":1,"column":1},"value":"v"}]}]}]
    children.append({"scenario": {"id":"sc","location":{"line":1,"column":1},"tags":[],"keyword":"Scenario","name":"n","description":"","steps":steps,"examples":examples}})
    return {"uri":"u","comments":[],"feature":{"tags":[],"location":{"line":1,"column":1},"language":"en","keyword":"Feature","name":"f","description":"","children":children}}

def ref_types(bg, sc):
    if not sc:
        return []
    out = []
    last = "Unknown"
    for k in list(bg) + list(sc):
        if KT[k] != "Conjunction":
            last = KT[k]
        out.append(last)
    return out

def types_ok(bg: List[int], sc: List[int], outline: bool) -> bool:
    """
    pre: len(bg) <= 2 and len(sc) <= 3
    pre: all(0 <= k < 5 for k in bg) and all(0 <= k < 5 for k in sc)
    post: _
    """
    doc = build(bg, sc, outline, "x")
    pickles = Compiler(IdGenerator()).compile(doc)
    if len(pickles) != 1:
        return False
    return [s["type"] for s in pickles[0]["steps"]] == ref_types(bg, sc)
