from typing import List, Tuple
from gherkin.gherkin_line import GherkinLine

def ref_split(row: str) -> List[Tuple[str, int]]:
    # reference: documented semantics, index-based
    out = []
    i = 0
    n = len(row)
    cell = ""
    first = True
    start = 1
    while i < n:
        c = row[i]
        if c == "|":
            if first:
                first = False
            else:
                out.append((cell, start))
            cell = ""
            start = i + 2
            i += 1
        elif c == "\\":
            if i + 1 < n:
                d = row[i+1]
                if d == "n":
                    cell += "\n"
                elif d == "|" or d == "\\":
                    cell += d
                else:
                    cell += "\\" + d
                i += 2
            else:
                cell += "\\"
                i += 1
        else:
            cell += c
            i += 1
    return out

def check_split(row: str) -> bool:
    """
    pre: len(row) <= 5
    post: _
    """
    return list(GherkinLine.split_table_cells(row)) == ref_split(row)

def check_split_bad(row: str) -> bool:
    """
    pre: len(row) <= 5
    post: _
    """
    return len(list(GherkinLine.split_table_cells(row))) < 3
